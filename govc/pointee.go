package main

import (
	"fmt"
	"go/ast"
	"go/token"
	"go/types"
)

// havocPointee gives fresh values to every field of the struct p points to (struct-valued fields,
// one level of pointer-to-struct fields excluded, get fresh sub-objects recursively).
func (fc *FnCtx) havocPointee(st *State, p Term, depth int) {
	if depth > 3 {
		return
	}
	u, ok := derefType(p.T).Underlying().(*types.Struct)
	if !ok {
		return
	}
	for i := 0; i < u.NumFields(); i++ {
		f := u.Field(i)
		nv := fc.fresh(f.Name(), f.Type())
		if isStructVal(f.Type()) {
			// fresh sub-object
			cur := fc.get(st, allocKey, SInt, nil)
			fc.assume(st, boolT(fmt.Sprintf("(> %s %s)", nv.S, cur.S)))
			fc.set(st, allocKey, Term{S: nv.S, Sort: SInt})
			fc.writeField(st, p, p.T, f, nv)
			sub := nv
			sub.T = f.Type()
			fc.havocPointee(st, sub, depth+1)
			continue
		}
		fc.writeField(st, p, p.T, f, nv)
	}
}

// mutatedIn: may the struct-valued local obj be modified (or have its address taken) inside body?
func (fc *FnCtx) mutatedIn(obj types.Object, body ast.Node) bool {
	if obj == nil {
		return false
	}
	rooted := func(e ast.Expr) bool {
		for {
			switch x := ast.Unparen(e).(type) {
			case *ast.Ident:
				return fc.info().Uses[x] == obj || fc.info().Defs[x] == obj
			case *ast.SelectorExpr:
				e = x.X
			case *ast.IndexExpr:
				e = x.X
			default:
				return false
			}
		}
	}
	found := false
	ast.Inspect(body, func(n ast.Node) bool {
		if found {
			return false
		}
		switch x := n.(type) {
		case *ast.AssignStmt:
			for _, l := range x.Lhs {
				if rooted(l) {
					found = true
				}
			}
		case *ast.IncDecStmt:
			if rooted(x.X) {
				found = true
			}
		case *ast.UnaryExpr:
			if x.Op == token.AND && rooted(x.X) {
				found = true
			}
		case *ast.CallExpr:
			if sel, ok := ast.Unparen(x.Fun).(*ast.SelectorExpr); ok && rooted(sel.X) {
				if s, ok := fc.info().Selections[sel]; ok && s.Kind() == types.MethodVal {
					if fn, ok := s.Obj().(*types.Func); ok {
						if r := fn.Type().(*types.Signature).Recv(); r != nil {
							if _, isPtr := r.Type().Underlying().(*types.Pointer); isPtr {
								found = true
							}
						}
					}
				}
			}
		}
		return true
	})
	return found
}

// localInScope: is a local variable of that name visible at pos?
func (fc *FnCtx) localInScope(name string, pos token.Pos) bool {
	if !pos.IsValid() || fc.pkg.Types == nil {
		return false
	}
	sc := fc.pkg.Types.Scope().Innermost(pos)
	if sc == nil {
		return false
	}
	_, obj := sc.LookupParent(name, pos)
	if obj == nil {
		return false
	}
	v, ok := obj.(*types.Var)
	return ok && v.Pkg() != nil && v.Parent() != v.Pkg().Scope()
}
