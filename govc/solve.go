package main

import (
	"bytes"
	"context"
	"fmt"
	"os"
	"os/exec"
	"path/filepath"
	"strings"
	"sync"
	"time"
)

const smtPrelude = `(declare-sort Str 0)
(declare-sort Flt 0)
(declare-datatypes ((Slice 1)) ((par (E) ((mk-slice (sarr (Array Int E)) (slen Int))))))
(declare-fun strlen (Str) Int)
(declare-fun strat (Str Int) Int)
(define-fun tdiv ((x Int) (y Int)) Int (ite (>= x 0) (ite (> y 0) (div x y) (- (div x (- y)))) (ite (> y 0) (- (div (- x) y)) (div (- x) (- y)))))
(define-fun tmod ((x Int) (y Int)) Int (- x (* y (tdiv x y))))
`

type solverSpec struct {
	name string
	argv func(file string, timeoutS int) []string
	head string
}

var solvers = []solverSpec{
	{"z3-new", func(f string, t int) []string { return []string{"z3-new", fmt.Sprintf("-T:%d", t), f} }, ""},
	{"z3", func(f string, t int) []string { return []string{"z3", fmt.Sprintf("-T:%d", t), f} }, ""},
	{"cvc5", func(f string, t int) []string {
		return []string{"cvc5", fmt.Sprintf("--tlimit=%d", t*1000), "--lang=smt2", f}
	}, "(set-logic ALL)\n"},
}

// Query text for an obligation.
func (o *Obligation) smt(models bool) string {
	var b strings.Builder
	if models {
		b.WriteString("(set-option :produce-models true)\n")
	}
	b.WriteString("@@HEAD@@")
	b.WriteString(smtPrelude)
	for _, c := range o.fc.cmds[:o.Prefix] {
		if o.ExpectSat && strings.HasPrefix(c, "(assert ") && (strings.Contains(c, "(forall ") || strings.Contains(c, "(exists ")) {
			continue // covers are checked modulo quantified facts (they make sat answers undecidable)
		}
		b.WriteString(c)
		b.WriteByte('\n')
	}
	b.WriteString("(assert " + o.Goal + ")\n(check-sat)\n")
	if models && len(o.Watch) > 0 {
		b.WriteString("(get-value (")
		for _, w := range o.Watch {
			b.WriteString(w.S + " ")
		}
		b.WriteString("))\n")
	}
	return b.String()
}

type solveOpts struct {
	timeoutS int
	dir      string
	par      int
	noRetry  bool
}

func runSolver(ctx context.Context, sp solverSpec, file string, timeoutS int) (answer, out string) {
	argv := sp.argv(file, timeoutS)
	cctx, cancel := context.WithTimeout(ctx, time.Duration(timeoutS+2)*time.Second)
	defer cancel()
	cmd := exec.CommandContext(cctx, argv[0], argv[1:]...)
	var buf bytes.Buffer
	cmd.Stdout = &buf
	cmd.Stderr = &buf
	_ = cmd.Run()
	out = buf.String()
	first := strings.TrimSpace(strings.SplitN(out, "\n", 2)[0])
	switch first {
	case "sat", "unsat", "unknown":
		return first, out
	case "timeout":
		return "timeout", out
	}
	if ctx.Err() != nil || cctx.Err() != nil {
		return "timeout", out
	}
	if strings.Contains(out, "timeout") || strings.Contains(out, "interrupted") {
		return "timeout", out
	}
	return "error", out
}

// Solve discharges one obligation with the solver portfolio.
func Solve(o *Obligation, opts solveOpts) {
	base := filepath.Join(opts.dir, smtIdent(o.Name))
	text := o.smt(false)
	o.Bytes = len(text)
	// Quantifier-free first: dropping the quantified *assumptions* only weakens the hypotheses, so `unsat`
	// there discharges the obligation; anything else falls through to the full query.
	if !o.ExpectSat && strings.Contains(text, "(forall ") {
		var qf strings.Builder
		for _, line := range strings.Split(text, "\n") {
			// engine-generated quantified facts (slice / allocation / preservation lemmas) bind qi, qp or qk;
			// quantifiers written in contracts (axioms, invariants) are kept
			if strings.HasPrefix(line, "(assert ") && (strings.Contains(line, "(forall ((qi ") || strings.Contains(line, "(forall ((qp ") || strings.Contains(line, "(forall ((qk ")) && !strings.HasPrefix(line, "(assert "+o.Goal) {
				continue
			}
			qf.WriteString(line)
			qf.WriteByte('\n')
		}
		f := base + ".qf.smt2"
		if err := os.WriteFile(f, []byte(strings.Replace(qf.String(), "@@HEAD@@", "", 1)), 0o644); err == nil {
			t0 := time.Now()
			qt := opts.timeoutS
			if qt > 5 {
				qt = 5
			}
			ans, out := runSolver(context.Background(), solvers[0], f, qt)
			os.Remove(f)
			if ans == "unsat" {
				o.Answer, o.Backend, o.Ms, o.Output = "unsat", solvers[0].name+" (without the engine's quantified lemmas)", time.Since(t0).Milliseconds(), firstLines(out, 2)
				return
			}
			if ans == "sat" {
				// refutable without the quantified lemmas: if the full query then runs out of time, that is the
				// solver looping on a satisfiable quantified problem, not load, so it is not retried
				o.qfSat = true
			}
		}
	}
	files := map[string]string{}
	for _, sp := range solvers {
		f := base + "." + sp.name + ".smt2"
		if err := os.WriteFile(f, []byte(strings.Replace(text, "@@HEAD@@", sp.head, 1)), 0o644); err != nil {
			o.Answer = "error"
			o.Output = err.Error()
			return
		}
		files[sp.name] = f
	}
	defer func() {
		for _, f := range files {
			os.Remove(f)
		}
	}()
	ctx, cancel := context.WithCancel(context.Background())
	defer cancel()
	type res struct {
		name, ans, out string
		ms         int64
	}
	ch := make(chan res, len(solvers))
	start := time.Now()
	launch := func(sp solverSpec) {
		go func() {
			t0 := time.Now()
			a, out := runSolver(ctx, sp, files[sp.name], opts.timeoutS)
			ch <- res{sp.name, a, out, time.Since(t0).Milliseconds()}
		}()
	}
	launch(solvers[0])
	launched := 1
	got := 0
	var last res
	timer := time.NewTimer(1500 * time.Millisecond)
	defer timer.Stop()
	var outs []string
	for got < len(solvers) {
		select {
		case r := <-ch:
			got++
			last = r
			outs = append(outs, r.name+": "+firstLines(r.out, 3))
			if r.ans == "sat" || r.ans == "unsat" {
				o.Answer, o.Backend, o.Ms = r.ans, r.name, time.Since(start).Milliseconds()
				o.Output = firstLines(r.out, 5)
				if r.ans == "sat" && !o.ExpectSat && len(o.Watch) > 0 {
					o.fetchModel(r.name, opts)
				}
				return
			}
			if launched < len(solvers) {
				for _, sp := range solvers[launched:] {
					launch(sp)
				}
				launched = len(solvers)
			}
		case <-timer.C:
			if launched < len(solvers) {
				for _, sp := range solvers[launched:] {
					launch(sp)
				}
				launched = len(solvers)
			}
		}
	}
	o.Answer = last.ans
	if o.Answer == "" || o.Answer == "error" {
		// prefer reporting unknown/timeout over error if any solver said so
		for _, s := range outs {
			if strings.Contains(s, "unknown") {
				o.Answer = "unknown"
			}
		}
		if o.Answer == "" {
			o.Answer = "error"
		}
	}
	o.Backend = "none"
	o.Ms = time.Since(start).Milliseconds()
	o.Output = strings.Join(outs, " | ")
}

func firstLines(s string, n int) string {
	lines := strings.Split(strings.TrimSpace(s), "\n")
	if len(lines) > n {
		lines = lines[:n]
	}
	return strings.Join(lines, "\n")
}

func (o *Obligation) fetchModel(solver string, opts solveOpts) {
	var sp solverSpec
	for _, s := range solvers {
		if s.name == solver {
			sp = s
		}
	}
	f := filepath.Join(opts.dir, smtIdent(o.Name)+".model.smt2")
	text := strings.Replace(o.smt(true), "@@HEAD@@", sp.head, 1)
	if sp.name == "cvc5" {
		// produce-models must precede set-logic
		text = "(set-option :produce-models true)\n" + sp.head + strings.Replace(strings.Replace(o.smt(true), "@@HEAD@@", "", 1), "(set-option :produce-models true)\n", "", 1)
	}
	if err := os.WriteFile(f, []byte(text), 0o644); err != nil {
		return
	}
	defer os.Remove(f)
	ans, out := runSolver(context.Background(), sp, f, opts.timeoutS)
	if ans != "sat" {
		return
	}
	o.Model = parseGetValue(out, o.Watch)
}

// parseGetValue parses "((t1 v1) (t2 v2) ...)" following the "sat" line.
func parseGetValue(out string, watch []Term) map[string]string {
	m := map[string]string{}
	i := strings.Index(out, "\n")
	if i < 0 {
		return m
	}
	body := strings.TrimSpace(out[i+1:])
	if !strings.HasPrefix(body, "(") {
		return m
	}
	// split top-level pairs
	depth := 0
	start := -1
	var pairs []string
	for j, c := range body {
		switch c {
		case '(':
			depth++
			if depth == 2 {
				start = j
			}
		case ')':
			if depth == 2 && start >= 0 {
				pairs = append(pairs, body[start+1:j])
				start = -1
			}
			depth--
		}
	}
	for idx, p := range pairs {
		if idx >= len(watch) {
			break
		}
		w := watch[idx].S
		p = strings.TrimSpace(p)
		if strings.HasPrefix(p, w) {
			m[w] = strings.TrimSpace(p[len(w):])
		} else {
			// term printed differently: take everything after the first balanced term
			m[w] = p
		}
	}
	return m
}

// SolveAll runs obligations in parallel.
func SolveAll(obls []*Obligation, opts solveOpts) {
	sem := make(chan struct{}, opts.par)
	var wg sync.WaitGroup
	for _, o := range obls {
		wg.Add(1)
		sem <- struct{}{}
		go func(o *Obligation) {
			defer wg.Done()
			defer func() { <-sem }()
			if o.NoRetry {
				short := opts
				short.timeoutS = 3
				Solve(o, short)
				return
			}
			Solve(o, opts)
		}(o)
	}
	wg.Wait()
	// An obligation no solver decided in the parallel pass is tried again with the machine to itself (two at
	// a time, three times the budget): a time-out under load is not a reason to raise an alarm.
	var retry []*Obligation
	for _, o := range obls {
		if !o.ExpectSat && !o.NoRetry && !o.qfSat && o.Answer != "sat" && o.Answer != "unsat" {
			retry = append(retry, o)
		}
	}
	if len(retry) == 0 || len(retry) > 30 || opts.noRetry {
		return
	}
	ropts := opts
	ropts.timeoutS = opts.timeoutS * 3
	sem2 := make(chan struct{}, 2)
	for _, o := range retry {
		wg.Add(1)
		sem2 <- struct{}{}
		go func(o *Obligation) {
			defer wg.Done()
			defer func() { <-sem2 }()
			first := o.Answer
			Solve(o, ropts)
			o.Output = "first pass: " + first + "; retried alone: " + o.Output
		}(o)
	}
	wg.Wait()
}
