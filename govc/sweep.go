package main

import (
	"encoding/json"
	"go/ast"
	"fmt"
	"os"
	"path/filepath"
	"sort"
	"strings"
	"time"
)

// The zero-annotation no-panic sweep (DESIGN D.6). Every function of the scoped packages that has no contract of
// its own is lowered in safe mode under a synthetic contract (no requires except a non-nil receiver; every call
// unknown or modelled; loops get only the automatic facts). Each index, slice bound, nil dereference, map store,
// division and make size that discharges is a site proved panic-free for all inputs; the proved sites are kept
// in a committed ledger (/verif/ledger/<Cnn>.json), keyed by function, kind of site, the expression text and its
// occurrence among equal texts (no line numbers). The check of the property re-proves the ledger.

// sweepSkip: functions the sweep does not attempt (a table-filling function of several hundred element stores whose
// store chain exhausts memory when lowered whole).
var sweepSkip = map[string]bool{"bytecode.initializeDispatch": true}

// sweepMaxNodes: functions with more syntax nodes than this are not attempted by the sweep.
const sweepMaxNodes = 1500

type ledgerSite struct {
	Func string `json:"func"`
	Kind string `json:"kind"`
	Text string `json:"text"`
	Occ  int    `json:"occ"`
}

func (s ledgerSite) key() string { return fmt.Sprintf("%s|%s|%s|%d", s.Func, s.Kind, s.Text, s.Occ) }

type ledgerFile struct {
	Property string       `json:"property"`
	Scope    []string     `json:"scope"`
	Sites    []ledgerSite `json:"sites"`
	// Closed: functions in which the sweep proved every index, slice, make, map-store and division site. For these
	// the claim is about the function, not about a list of expressions: a site that appears in one of them later and
	// is refuted (the solver gives an input of that function on which it panics) is a violation too.
	Closed []string `json:"closed_funcs"`
}

func ledgerPath(out, prop string) string { return filepath.Join(out, "ledger", prop+".json") }

func loadLedger(out, prop string) (*ledgerFile, error) {
	b, err := os.ReadFile(ledgerPath(out, prop))
	if err != nil {
		return nil, err
	}
	var lf ledgerFile
	if err := json.Unmarshal(b, &lf); err != nil {
		return nil, err
	}
	return &lf, nil
}

// syntheticContract: the contract the sweep gives a function that has none.
func (r *Run) syntheticContract(full string) *FuncContract {
	src := r.Prog.FuncDecls[full]
	if src == nil || src.Decl.Body == nil {
		return nil
	}
	c := &FuncContract{PkgPath: src.Pkg.PkgPath, Key: full, Written: full, Safe: true, Invariants: map[int][]*Clause{}, Opts: map[string]string{"props": r.Prop, "noinv": "true", "sweep": "true"}, File: "(sweep)"}
	if recv := src.Decl.Recv; recv != nil && len(recv.List) == 1 && len(recv.List[0].Names) == 1 && recv.List[0].Names[0].Name != "_" {
		if _, isPtr := recv.List[0].Type.(*ast.StarExpr); isPtr {
			name := recv.List[0].Names[0].Name
			if e, err := parseCExpr(name + " != nil"); err == nil {
				c.Requires = append(c.Requires, &Clause{Kind: "requires", Expr: e, Src: name + " != nil", Label: "receiver"})
			}
		}
	}
	return c
}

// sweepFuncs: functions in scope (package path prefixes), without a contract of their own, in a fixed order.
func (r *Run) sweepFuncs(scope []string) []string {
	var out []string
	for full, src := range r.Prog.FuncDecls {
		if src.Decl.Body == nil || strings.HasSuffix(r.Prog.Fset.Position(src.Decl.Pos()).Filename, "_test.go") {
			continue
		}
		in := false
		for _, p := range scope {
			if strings.HasPrefix(src.Pkg.PkgPath, p) {
				in = true
			}
		}
		if c := r.Prog.ContractFor(full, src.Pkg.PkgPath); !in || (c != nil && !c.Trusted && (propListed(c.Opts["props"], r.Prop) || c.Safe)) || sweepSkip[shortFuncName(full)] {
			continue
		}
		out = append(out, full)
	}
	sort.Strings(out)
	return out
}

// safeSites lowers one function under its synthetic contract and returns its safe obligations with ledger keys.
func (r *Run) safeSites(full string) (map[string]*Obligation, string) {
	c := r.syntheticContract(full)
	if c == nil {
		return nil, "function not found"
	}
	res := r.Eng.VerifyFunc(c)
	if res.Err != "" {
		return nil, res.Err
	}
	if len(res.Unbound) > 0 {
		return nil, strings.Join(res.Unbound, "; ")
	}
	occ := map[string]int{}
	out := map[string]*Obligation{}
	for _, o := range res.Obls {
		if o.Class != "safe" {
			continue
		}
		kind := o.Name[strings.LastIndex(o.Name, "/safe-")+6:]
		if i := strings.Index(kind, "#"); i >= 0 {
			kind = kind[:i]
		}
		k := kind + "|" + o.Text
		occ[k]++
		s := ledgerSite{Func: full, Kind: kind, Text: o.Text, Occ: occ[k]}
		out[s.key()] = o
	}
	return out, ""
}

// cmdSweep: `govc sweep <Cnn>` runs the full sweep and writes the ledger of the sites that discharge quickly.
func cmdSweep(args []string) int {
	if len(args) < 1 {
		fmt.Fprintln(os.Stderr, "usage: govc sweep <Cnn> [--out dir]")
		return 2
	}
	prop := args[0]
	spec := propSpecs[prop]
	if spec == nil || len(spec.Sweep) == 0 {
		fmt.Fprintln(os.Stderr, "no sweep scope for", prop)
		return 2
	}
	out := "/verif"
	for i, a := range args {
		if a == "--out" && i+1 < len(args) {
			out = args[i+1]
		}
	}
	scratch, _ := os.MkdirTemp("", "govc-sweep-")
	defer os.RemoveAll(scratch)
	r := &Run{Prop: prop, Tier: "thorough", Repo: "/repo", Out: out, EvDir: out, Scratch: scratch, Spec: spec, Assume: map[string]bool{}, Trusted: map[string]bool{}, Start: time.Now()}
	prog, err := LoadProgram(r.Repo, scratch, spec.Patterns)
	if err != nil {
		fmt.Fprintln(os.Stderr, "load failed:", err)
		return 2
	}
	r.Prog = prog
	for _, pc := range prog.Contracts {
		pc.Invariants = nil
	}
	r.Eng = &Engine{prog: prog, frame: BuildFrame(prog)}
	r.Eng.buildGuards()
	funcs := r.sweepFuncs(spec.Sweep)
	fmt.Fprintf(os.Stderr, "sweep %s: %d functions in scope\n", prop, len(funcs))
	type siteResult struct {
		site           ledgerSite
		answer, pos    string
		ms             int64
	}
	var results []siteResult
	var swept []string
	skipped, big := 0, 0
	smtDir := filepath.Join(scratch, "smt")
	os.MkdirAll(smtDir, 0o755)
	var batch []*Obligation
	keyOf := map[*Obligation]ledgerSite{}
	flush := func() {
		if len(batch) == 0 {
			return
		}
		SolveAll(batch, solveOpts{timeoutS: 2, dir: smtDir, par: 14, noRetry: true})
		for _, o := range batch {
			results = append(results, siteResult{keyOf[o], o.Answer, o.Pos, o.Ms})
			delete(keyOf, o)
			o.fc = nil
		}
		batch = nil
		os.RemoveAll(smtDir)
		os.MkdirAll(smtDir, 0o755)
	}
	for _, f := range funcs {
		// very large functions (the interpreter's dispatch tables) are outside what the sweep attempts
		if src := r.Prog.FuncDecls[f]; src != nil {
			nodes := 0
			ast.Inspect(src.Decl.Body, func(ast.Node) bool { nodes++; return nodes < sweepMaxNodes })
			if nodes >= sweepMaxNodes {
				big++
				continue
			}
		}
		if os.Getenv("GOVC_SWEEP_TRACE") != "" {
			fmt.Fprintln(os.Stderr, "sweep:", f)
		}
		sites, why := r.safeSites(f)
		if why != "" {
			skipped++
			continue
		}
		swept = append(swept, f)
		for k, o := range sites {
			parts := strings.SplitN(k, "|", 4)
			var occ int
			fmt.Sscanf(parts[3], "%d", &occ)
			keyOf[o] = ledgerSite{Func: parts[0], Kind: parts[1], Text: parts[2], Occ: occ}
			batch = append(batch, o)
		}
		if len(batch) >= 300 {
			flush()
		}
	}
	flush()
	fmt.Fprintf(os.Stderr, "sweep %s: %d safe sites generated, %d functions skipped (outside the subset), %d too large\n", prop, len(results), skipped, big)
	lf := ledgerFile{Property: prop, Scope: spec.Sweep}
	proved := 0
	var open []string
	for _, res := range results {
		s := res.site
		if s.Kind == "nil" {
			// nil dereferences are swept but not kept: the ones this contract-free sweep can prove are mostly trivial
			// (a pointer just built by a literal), the ones that matter need contracts on callees
			continue
		}
		if res.answer == "unsat" && res.ms < 2000 {
			lf.Sites = append(lf.Sites, s)
			proved++
		} else {
			open = append(open, fmt.Sprintf("%s\t%s\t%s\t%s\t%s", res.answer, s.Kind, shortFuncName(s.Func), res.pos, s.Text))
		}
	}
	perFunc := map[string][2]int{}
	for _, res := range results {
		if res.site.Kind == "nil" {
			continue
		}
		c := perFunc[res.site.Func]
		c[0]++
		if res.answer == "unsat" && res.ms < 2000 {
			c[1]++
		}
		perFunc[res.site.Func] = c
	}
	for _, f := range swept {
		if c := perFunc[f]; c[0] == c[1] {
			lf.Closed = append(lf.Closed, f) // every site proved (possibly none to prove)
		}
	}
	sort.Strings(lf.Closed)
	sort.Strings(open)
	os.MkdirAll(filepath.Join(out, "ledger"), 0o755)
	os.WriteFile(filepath.Join(out, "ledger", prop+".open.txt"), []byte(strings.Join(open, "\n")+"\n"), 0o644)
	sort.Slice(lf.Sites, func(i, j int) bool { return lf.Sites[i].key() < lf.Sites[j].key() })
	b, _ := json.MarshalIndent(lf, "", " ")
	os.WriteFile(ledgerPath(out, prop), append(b, '\n'), 0o644)
	fmt.Printf("sweep %s: %d of %d sites proved panic-free and written to %s (%.0fs)\n", prop, proved, len(results), ledgerPath(out, prop), time.Since(r.Start).Seconds())
	return 0
}

// ledgerExtra: the check of a ledger property re-proves every site of the committed ledger on the current tree.
func ledgerExtra(r *Run) error {
	lf, err := loadLedger(r.Out, r.Prop)
	if err != nil {
		return fmt.Errorf("ledger: %v", err)
	}
	closed := map[string]bool{}
	for _, f := range lf.Closed {
		closed[f] = true
	}
	byFunc := map[string][]ledgerSite{}
	for _, s := range lf.Sites {
		byFunc[s.Func] = append(byFunc[s.Func], s)
	}
	var funcs []string
	for f := range byFunc {
		funcs = append(funcs, f)
	}
	for f := range closed {
		if _, ok := byFunc[f]; !ok {
			funcs = append(funcs, f)
		}
	}
	sort.Strings(funcs)
	gone, other := 0, 0
	for _, f := range funcs {
		if c := r.Prog.ContractFor(f, ""); c != nil && !c.Trusted && (propListed(c.Opts["props"], r.Prop) || c.Safe) {
			continue // under a contract of this property, or under a safe-mode contract of another one: every site of it is an obligation of that contract
		}
		sites, why := r.safeSites(f)
		if why != "" {
			gone += len(byFunc[f])
			r.Notes = append(r.Notes, "ledger: "+shortFuncName(f)+" can no longer be laid over the code ("+why+"): its "+fmt.Sprint(len(byFunc[f]))+" sites are undecided")
			continue
		}
		want := map[string]bool{}
		for _, s := range byFunc[f] {
			want[s.key()] = true
			o := sites[s.key()]
			if o == nil {
				gone++
				continue // the expression is gone (edited away): undecided, not a violation
			}
			o.Name = fmt.Sprintf("%s/ledger-%s[%s]#%d", shortFuncName(f), s.Kind, s.Text, s.Occ)
			r.Extra = append(r.Extra, o)
		}
		isClosed := closed[f]
		for k, o := range sites {
			if want[k] {
				continue
			}
			parts := strings.SplitN(k, "|", 4)
			if isClosed && parts[1] != "nil" {
				// a site that was not there when every site of this function was proved: claimed only if refuted
				o.Name = fmt.Sprintf("%s/ledger-new-%s[%s]#%s", shortFuncName(f), parts[1], parts[2], parts[3])
				o.SoftTimeout = true
				r.Extra = append(r.Extra, o)
				continue
			}
			other++
		}
	}
	r.Notes = append(r.Notes, fmt.Sprintf("ledger %s: %d sites in %d functions; %d sites no longer present (undecided); %d further safe sites in those functions are not in the ledger (never proved: undecided, not claimed)", r.Prop, len(lf.Sites), len(funcs), gone, other))
	return nil
}
