package main

import (
	"fmt"
	"go/ast"
	"go/token"
	"go/types"
	"sort"
	"strings"

	"golang.org/x/tools/go/packages"
)

// Obligation is one proof goal: the SMT commands cmds[:Prefix] plus (assert Goal) must be unsat
// (or sat, for covers).
type Obligation struct {
	Name      string
	Class     string // post pre-call inv-init inv-step ghost-assert safe cover frame lemma table
	Func      string
	Prefix    int
	Goal      string
	ExpectSat bool
	NoRetry   bool // known finding: one short attempt, no retry
	qfSat       bool // refuted when the engine's quantified lemmas are left out (see Solve)
	SoftTimeout bool // claimed only when refuted: an undecided answer is a note, not a violation
	Pos       string
	Text      string
	fc        *FnCtx
	Watch     []Term // values to read back from a model

	// results
	Answer  string // unsat sat unknown timeout error
	Backend string
	Ms      int64
	Model   map[string]string
	Output  string
	Bytes   int
	Reproduced bool
}

type wrec struct {
	key  heapKey
	base string // reference written ("*" = whole array havocked)
}

type deferred struct {
	call  *ast.CallExpr
	guard Term // condition under which the defer was registered
}

type State struct {
	live   Term
	vars   map[any]Term
	defers []deferred
}

func (s *State) clone() *State {
	n := &State{live: s.live, vars: make(map[any]Term, len(s.vars))}
	for k, v := range s.vars {
		n.vars[k] = v
	}
	n.defers = append(n.defers, s.defers...)
	return n
}

func (s *State) dead() bool { return s.live.S == "false" }

type loopCtx struct {
	label     string
	isLoop    bool
	breaks    []*State
	continues []*State
}

// FnCtx verifies one function against its contract.
type FnCtx struct {
	eng      *Engine
	prog     *Program
	pkg      *packages.Package
	src      *FuncSrc
	contract *FuncContract
	name     string // short display name  pkg.Func
	safe     bool

	cmds     []string
	declared map[string]bool
	nfresh   int
	obls     []*Obligation

	keys      map[any]bool // heap / global keys discovered in pass 1
	keyOrder  []any
	pass      int
	entry     *State            // entry state (for old())
	paramInit map[string]Term   // entry values of params by name
	results   []*types.Var      // result variables (named or synthesized)
	resNames  []string          // names results are known by in contracts
	loops     []*loopCtx
	loopOrd   int
	callOrd   map[string]int
	retOrd    int
	safeOrd   map[string]int
	strLits   map[string]string // literal value -> smt const
	tags      map[string]int    // type string -> tag id
	abstracted []string
	trustedUsed map[string]bool
	assumptions map[string]bool
	ghostVars   map[string]*GhostVar
	labelNext   string
	qvars       []map[string]Term // quantifier scopes for contract expressions
	unbound     []string
	fieldOwner  map[*types.Var]string
	localFuncs  map[types.Object]*ast.FuncLit
	inlineDepth int
	curPos      token.Pos
	escaped     map[types.Object]bool
	unsupported []string
	anchorHit   map[int]bool
	inl         *inlineCtx
	inDefer     bool
	qn          int
	keySorts    map[any]string
	keyObj      map[heapKey]*types.Var
	dry         int
	owned       []ownedRef
	fnBody      *ast.BlockStmt
	fnSig       *types.Signature
	fnPos       token.Pos
	trace       map[any]bool
	invKeys     map[*Clause]map[any]bool
	invCallOrd  int
	ptrArgs     []Term
	noRetain    int            // >0 while evaluating the arguments of a non-retaining library decoder
	decoded     []types.Object // locals whose address was handed to it
	wlog        []wrec   // field-array writes (for the fresh-writes-only analysis of loop bodies)
	alog        []string // references allocated
	freshOnly   map[any]bool
	loopPkgInvs map[int][]*Clause
	inContract  int
	assignOrd   map[string]int
	anchorArgs  []Term
	specDepth   int
	qdepth      int
	keyTypes    map[any]types.Type
	structMaps  map[heapKey]string // value arrays of maps whose elements are struct values -> key sort
	structValDone map[string]bool
}

func (fc *FnCtx) fail(format string, args ...any) {
	panic(engErr(fmt.Sprintf(format, args...)))
}

type engErr string

func (fc *FnCtx) posStr(p token.Pos) string {
	if !p.IsValid() {
		return ""
	}
	ps := fc.prog.Fset.Position(p)
	f := ps.Filename
	if i := strings.Index(f, "/internal/"); i >= 0 {
		f = f[i+1:]
	} else if strings.HasPrefix(f, fc.prog.Repo+"/") {
		f = f[len(fc.prog.Repo)+1:]
	}
	return fmt.Sprintf("%s:%d", f, ps.Line)
}

func (fc *FnCtx) emit(cmd string) { fc.cmds = append(fc.cmds, cmd) }

func (fc *FnCtx) declare(name, sort string) {
	if fc.declared[name] {
		return
	}
	fc.declared[name] = true
	fc.emit(fmt.Sprintf("(declare-const %s %s)", name, sort))
}

func (fc *FnCtx) declareFun(name string, args []string, res string) {
	if fc.declared[name] {
		return
	}
	fc.declared[name] = true
	fc.emit(fmt.Sprintf("(declare-fun %s (%s) %s)", name, strings.Join(args, " "), res))
}

func (fc *FnCtx) freshName(hint string) string {
	fc.nfresh++
	return fmt.Sprintf("%s!%d", smtIdent(hint), fc.nfresh)
}

// fresh declares a new constant of the sort for Go type t, with its range facts assumed unconditionally.
func (fc *FnCtx) fresh(hint string, t types.Type) Term {
	n := fc.freshName(hint)
	so := sortOf(t)
	fc.declare(n, so)
	tm := Term{S: n, Sort: so, T: t}
	for _, f := range fc.rangeFacts(tm, t) {
		fc.emit("(assert " + f + ")")
	}
	return tm
}

func (fc *FnCtx) freshSort(hint, sort string) Term {
	n := fc.freshName(hint)
	fc.declare(n, sort)
	return Term{S: n, Sort: sort}
}

func (fc *FnCtx) rangeFacts(tm Term, t types.Type) []string {
	var out []string
	if t == nil {
		return nil
	}
	switch tm.Sort {
	case SInt:
		if isIntegerType(t) {
			if lo, hi, ok := intRange(t); ok {
				out = append(out, fmt.Sprintf("(>= %s %s)", tm.S, lo))
				if hi != "" {
					out = append(out, fmt.Sprintf("(<= %s %s)", tm.S, hi))
				} else {
					out = append(out, fmt.Sprintf("(<= %s 18446744073709551615)", tm.S))
				}
			} else {
				// int / int64: a value the program holds is a machine integer (arithmetic on them stays mathematical)
				out = append(out, fmt.Sprintf("(>= %s (- 9223372036854775808))", tm.S), fmt.Sprintf("(<= %s 9223372036854775807)", tm.S))
			}
		} else {
			switch t.Underlying().(type) {
			case *types.Pointer, *types.Map, *types.Interface, *types.Signature, *types.Chan, *types.Struct:
				out = append(out, fmt.Sprintf("(>= %s 0)", tm.S))
			}
		}
	case SStr:
		out = append(out, fmt.Sprintf("(>= (strlen %s) 0)", tm.S))
	default:
		if isSliceSort(tm.Sort) {
			out = append(out, fmt.Sprintf("(>= (slen %s) 0)", tm.S))
			if a, ok := t.Underlying().(*types.Array); ok {
				out = append(out, fmt.Sprintf("(= (slen %s) %d)", tm.S, a.Len()))
			}
		}
	}
	return out
}

func (fc *FnCtx) assume(st *State, t Term) {
	if t.S == "true" || st.dead() {
		return
	}
	fc.emit("(assert " + tImp(st.live, t).S + ")")
}

func (fc *FnCtx) assumeGlobal(t Term) {
	if t.S == "true" || fc.qdepth > 0 {
		return
	}
	fc.emit("(assert " + t.S + ")")
}

// assert records an obligation at this point and then assumes it.
func (fc *FnCtx) assert(st *State, name, class string, t Term, pos token.Pos, text string) {
	if st.dead() {
		return
	}
	if fc.pass == 2 && fc.dry == 0 {
		o := &Obligation{Name: fc.name + "/" + name, Class: class, Func: fc.name, Prefix: len(fc.cmds), Goal: tAnd(st.live, tNot(t)).S, Pos: fc.posStr(pos), Text: text, fc: fc}
		var pnames []string
		for n := range fc.paramInit {
			pnames = append(pnames, n)
		}
		sort.Strings(pnames)
		for _, n := range pnames {
			o.Watch = append(o.Watch, watchFor(n, fc.paramInit[n])...)
		}
		fc.obls = append(fc.obls, o)
	}
	fc.assume(st, t)
}

func (fc *FnCtx) cover(st *State, name string, pos token.Pos) {
	if fc.pass != 2 || fc.dry > 0 {
		return
	}
	o := &Obligation{Name: fc.name + "/" + name, Class: "cover", Func: fc.name, Prefix: len(fc.cmds), Goal: st.live.S, ExpectSat: true, Pos: fc.posStr(pos), fc: fc}
	fc.obls = append(fc.obls, o)
}

// newLive defines a fresh path-condition constant equal to t.
func (fc *FnCtx) newLive(t Term) Term {
	if t.S == "true" || t.S == "false" {
		return t
	}
	n := fc.freshName("live")
	fc.emit(fmt.Sprintf("(define-fun %s () Bool %s)", n, t.S))
	fc.declared[n] = true
	return boolT(n)
}

// name binds a term to a fresh constant (keeps terms small).
func (fc *FnCtx) nameTerm(hint string, t Term) Term {
	if len(t.S) < 40 || fc.qdepth > 0 {
		return t
	}
	n := fc.freshName(hint)
	fc.emit(fmt.Sprintf("(define-fun %s () %s %s)", n, t.Sort, t.S))
	fc.declared[n] = true
	return Term{S: n, Sort: t.Sort, T: t.T}
}

// ---- state variables ----

type heapKey struct {
	Kind string // F field, G global, M map part, P pointee, X ghost var, A alloc
	ID   string
}

func (fc *FnCtx) touch(k any) {
	if !fc.keys[k] {
		fc.keys[k] = true
		fc.keyOrder = append(fc.keyOrder, k)
	}
}

func (fc *FnCtx) keyName(k any) string {
	switch k := k.(type) {
	case heapKey:
		return smtIdent(k.Kind + "_" + k.ID)
	case *types.Var:
		return smtIdent("g_" + k.Name())
	}
	return "k"
}


// get returns the current value of a heap/global key in st.
func (fc *FnCtx) get(st *State, k any, sort string, t types.Type) Term {
	if fc.trace != nil {
		fc.trace[k] = true
	}
	if v, ok := st.vars[k]; ok {
		return v
	}
	fc.touch(k)
	fc.keySorts[k] = sort
	fc.keyTypes[k] = t
	// initial value constant (shared by all states)
	n := fc.keyName(k) + "!0"
	fc.declare(n, sort)
	v := Term{S: n, Sort: sort, T: t}
	if fc.pass == 2 && st != fc.entry {
		// should have been materialised at entry; be safe: treat as havocked now
		v = fc.freshSort(fc.keyName(k), sort)
		v.T = t
		fc.abstracted = append(fc.abstracted, fmt.Sprintf("late heap key %v (fresh)", k))
	}
	st.vars[k] = v
	return v
}

func (fc *FnCtx) set(st *State, k any, v Term) {
	fc.touch(k)
	fc.keySorts[k] = v.Sort
	if v.T != nil {
		fc.keyTypes[k] = v.T
	}
	st.vars[k] = v
}

// merge joins states into one (the receiver of control after a branch).
func (fc *FnCtx) merge(states []*State) *State {
	var alive []*State
	for _, s := range states {
		if s != nil && !s.dead() {
			alive = append(alive, s)
		}
	}
	if len(alive) == 0 {
		return &State{live: tFalse, vars: map[any]Term{}}
	}
	if len(alive) == 1 {
		return alive[0]
	}
	out := &State{vars: map[any]Term{}}
	var lives []Term
	for _, s := range alive {
		lives = append(lives, s.live)
	}
	out.live = fc.newLive(tOr(lives...))
	// union of keys
	keyset := map[any]bool{}
	var keys []any
	for _, s := range alive {
		for k := range s.vars {
			if !keyset[k] {
				keyset[k] = true
				keys = append(keys, k)
			}
		}
	}
	sort.Slice(keys, func(i, j int) bool { return fmt.Sprint(keys[i]) < fmt.Sprint(keys[j]) })
	for _, k := range keys {
		var first Term
		same := true
		present := true
		for i, s := range alive {
			v, ok := s.vars[k]
			if !ok {
				present = false
				break
			}
			if i == 0 {
				first = v
			} else if v.S != first.S {
				same = false
			}
		}
		if !present {
			// a local declared in only one branch: out of scope after the join (or a heap key, handled by get())
			if _, isObj := k.(types.Object); isObj {
				continue
			}
			if _, isHeap := k.(heapKey); !isHeap {
				continue // loop / inlining bookkeeping keys live only inside their construct
			}
			// heap key missing somewhere: materialise initial there
			for _, s := range alive {
				if _, ok := s.vars[k]; !ok {
					fc.get(s, k, fc.keySorts[k], fc.keyTypes[k])
				}
			}
			same = false
			first = alive[0].vars[k]
			for _, s := range alive[1:] {
				if s.vars[k].S != first.S {
					same = false
				}
			}
		}
		if same {
			out.vars[k] = first
			continue
		}
		hint := "m"
		switch kk := k.(type) {
		case types.Object:
			hint = kk.Name()
		case heapKey:
			hint = fc.keyName(kk)
		}
		nv := fc.freshSort(hint, first.Sort)
		nv.T = first.T
		for _, s := range alive {
			fc.emit(fmt.Sprintf("(assert (=> %s (= %s %s)))", s.live.S, nv.S, s.vars[k].S))
		}
		out.vars[k] = nv
	}
	// defers: keep the longest list (registered defers are guarded by their own conditions)
	for _, s := range alive {
		if len(s.defers) > len(out.defers) {
			out.defers = s.defers
		}
	}
	return out
}

func (fc *FnCtx) become(st, n *State) {
	st.live = n.live
	st.vars = n.vars
	st.defers = n.defers
}

// guardLive runs f with st.live strengthened by cond (for short-circuit operands) and restores it.
func (fc *FnCtx) withGuard(st *State, cond Term, f func()) {
	old := st.live
	st.live = fc.newLive(tAnd(old, cond))
	f()
	st.live = old
}

func (fc *FnCtx) note(format string, args ...any) {
	s := fmt.Sprintf(format, args...)
	for _, a := range fc.abstracted {
		if a == s {
			return
		}
	}
	fc.abstracted = append(fc.abstracted, s)
}

func exprText(fset *token.FileSet, e ast.Node) string {
	var b strings.Builder
	_ = printerFprint(&b, fset, e)
	s := b.String()
	s = strings.Join(strings.Fields(s), " ")
	if len(s) > 120 {
		s = s[:117] + "..."
	}
	return s
}
