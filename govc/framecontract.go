package main

import (
	"go/types"
	"sort"
	"strings"
)

// Contract-aware frames: a callee that carries a contract with an `assigns` clause contributes exactly
// the locations that clause names to its callers' write sets (its body is not descended into). The clause
// is an obligation of the callee's own verification when the callee is under contract, and an assumption
// (listed) when the contract is `trusted`.

func (f *Frame) frameOf(fn *types.Func, callerPkg string) (*wset, bool) {
	if fn == nil {
		return nil, false
	}
	key := fn.FullName()
	if o := fn.Origin(); o != nil {
		key = o.FullName()
	}
	ck := key + "@" + callerPkg
	if r, ok := f.frameMemo[ck]; ok {
		return r.w, r.ok
	}
	c := f.prog.ContractFor(key, callerPkg)
	if c == nil || !c.HasAssigns {
		f.frameMemo[ck] = frameRes{nil, false}
		return nil, false
	}
	w := f.contractWrites(c, fn)
	if c.Trusted {
		if f.usedTrustedFrames == nil {
			f.usedTrustedFrames = map[string]bool{}
		}
		f.usedTrustedFrames[c.Key] = true
	}
	f.frameMemo[ck] = frameRes{w, true}
	return w, true
}

type frameRes struct {
	w  *wset
	ok bool
}

func (f *Frame) contractWrites(c *FuncContract, fn *types.Func) *wset {
	w := newWset()
	sig := fn.Type().(*types.Signature)
	paramType := func(name string) types.Type {
		if r := sig.Recv(); r != nil && (r.Name() == name || name == "recv") {
			return r.Type()
		}
		names := c.ParamNames
		for i := 0; i < sig.Params().Len(); i++ {
			pn := sig.Params().At(i).Name()
			if names != nil && i < len(names) {
				pn = names[i]
			}
			if pn == name {
				return sig.Params().At(i).Type()
			}
		}
		return nil
	}
	pk := f.prog.Pkgs[c.PkgPath]
	for _, a := range c.Assigns {
		switch a.Kind {
		case CIdent:
			if a.Name == "heap" {
				w.all = true
				continue
			}
			if pc := f.prog.Contracts[c.PkgPath]; pc != nil {
				if _, isGhost := pc.GhostVars[a.Name]; isGhost {
					continue
				}
			}
			if pk != nil && pk.Types != nil {
				if v, ok := pk.Types.Scope().Lookup(a.Name).(*types.Var); ok {
					w.vars[v] = true
					continue
				}
			}
			if t := paramType(a.Name); t != nil {
				// a parameter naming an object: all of its fields / the map's contents
				switch u := derefType(t).Underlying().(type) {
				case *types.Struct:
					for i := 0; i < u.NumFields(); i++ {
						w.vars[u.Field(i).Origin()] = true
					}
				case *types.Map:
					w.maps[mapTypeID(u)] = true
				}
				continue
			}
			w.all = true
		case CSel:
			base := a.Args[0]
			if base.Kind == CIdent {
				if t := paramType(base.Name); t != nil {
					if st, ok := derefType(t).Underlying().(*types.Struct); ok {
						if a.Name == "*" {
							for i := 0; i < st.NumFields(); i++ {
								w.vars[st.Field(i).Origin()] = true
							}
							continue
						}
						if obj, _ := lookupFieldAnyPkg(t, a.Name); obj != nil {
							w.vars[obj.(*types.Var).Origin()] = true
							continue
						}
					}
				}
				// pkg.Var or globalStructVar.field
				if pk != nil && pk.Types != nil {
					if v, ok := pk.Types.Scope().Lookup(base.Name).(*types.Var); ok {
						if obj, _ := lookupFieldAnyPkg(v.Type(), a.Name); obj != nil {
							w.vars[obj.(*types.Var).Origin()] = true
							continue
						}
					}
					for _, imp := range pk.Imports {
						if imp.Name == base.Name && imp.Types != nil {
							if v, ok := imp.Types.Scope().Lookup(a.Name).(*types.Var); ok {
								w.vars[v] = true
							}
						}
					}
					continue
				}
			}
			w.all = true
		default:
			w.all = true
		}
	}
	_ = strings.TrimSpace
	return w
}

// ghostWritesOf: ghost variables (pkgpath.name) that a call to fn may assign: the targets of the anchored
// ghost assignments in fn's contract, ghost variables named in its assigns clause, and, transitively, those of
// the module functions it calls statically.
func (f *Frame) ghostWritesOf(fn *types.Func, callerPkg string) map[string]bool {
	out := map[string]bool{}
	seen := map[*types.Func]bool{}
	var walk func(g *types.Func, depth int)
	walk = func(g *types.Func, depth int) {
		if g == nil || seen[g] || depth > 6 {
			return
		}
		seen[g] = true
		key := g.FullName()
		if o := g.Origin(); o != nil {
			key = o.FullName()
		}
		pkg := callerPkg
		if g.Pkg() != nil {
			pkg = g.Pkg().Path()
		}
		if c := f.prog.ContractFor(key, pkg); c != nil {
			pc := f.prog.Contracts[c.PkgPath]
			for _, a := range c.Anchored {
				if a.Kind == "ghost" && a.GhostVar != "" {
					if gp, gn := resolveGhostName(f.prog, c.PkgPath, a.GhostVar); gp != "" {
						out[gp+"."+gn] = true
					} else {
						out[c.PkgPath+"."+a.GhostVar] = true
					}
				}
			}
			for _, a := range c.Assigns {
				if a.Kind == CIdent && pc != nil {
					if _, ok := pc.GhostVars[a.Name]; ok {
						out[c.PkgPath+"."+a.Name] = true
					}
				}
			}
		}
		if n := f.nodes[g.Origin()]; n != nil {
			for _, cal := range n.callees {
				walk(cal, depth+1)
			}
			for _, l := range n.lits {
				for _, cal := range l.callees {
					walk(cal, depth+1)
				}
			}
		}
	}
	walk(fn, 0)
	return out
}

// resolveGhostName: "alias.name" in a contract of package pkgPath denotes ghost variable `name` declared in the
// contract file of the imported package called alias. Returns ("", "") for an unqualified or unknown name.
func resolveGhostName(prog *Program, pkgPath, name string) (string, string) {
	i := strings.Index(name, ".")
	if i < 0 {
		return "", ""
	}
	alias, member := name[:i], name[i+1:]
	pk := prog.Pkgs[pkgPath]
	if pk == nil {
		return "", ""
	}
	var paths []string
	for path := range pk.Imports {
		paths = append(paths, path)
	}
	sort.Strings(paths)
	for _, path := range paths {
		if pk.Imports[path].Name != alias {
			continue
		}
		if pc := prog.Contracts[path]; pc != nil {
			if _, ok := pc.GhostVars[member]; ok {
				return path, member
			}
		}
	}
	return "", ""
}
