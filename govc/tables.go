package main

import (
	"go/token"
	"fmt"
	"go/ast"
	"go/types"
	"sort"
	"strings"

	"golang.org/x/tools/go/types/typeutil"
)

// table obligations: ground facts about the whole module, recomputed from /repo's syntax and types on every run.

func (r *Run) table(name string, ok bool, text, detail string) {
	o := &Obligation{Name: "table/" + name, Class: "table", Func: "table", Text: text, Backend: "scan", Output: detail}
	if ok {
		o.Answer = "unsat"
	} else {
		o.Answer = "sat"
	}
	r.Extra = append(r.Extra, o)
}

type callSite struct {
	Func string // FullName of the enclosing function
	Pos  string
}

// callSitesOf lists the non-test module call sites of callee (FullName) whose argument argIdx is the named constant/variable argName ("" = any).
func (r *Run) callSitesOf(callee string, argIdx int, argName string) []callSite {
	var out []callSite
	var paths []string
	for p := range r.Prog.Pkgs {
		if strings.HasPrefix(p, "github.com/tucats/ego") {
			paths = append(paths, p)
		}
	}
	sort.Strings(paths)
	for _, p := range paths {
		pk := r.Prog.Pkgs[p]
		if pk.TypesInfo == nil {
			continue
		}
		for _, f := range pk.Syntax {
			if strings.HasSuffix(r.Prog.Fset.Position(f.Pos()).Filename, "_test.go") {
				continue
			}
			for _, d := range f.Decls {
				fd, ok := d.(*ast.FuncDecl)
				if !ok || fd.Body == nil {
					continue
				}
				obj, _ := pk.TypesInfo.Defs[fd.Name].(*types.Func)
				if obj == nil {
					continue
				}
				ast.Inspect(fd.Body, func(n ast.Node) bool {
					ce, ok := n.(*ast.CallExpr)
					if !ok {
						return true
					}
					fn, _ := typeutil.Callee(pk.TypesInfo, ce).(*types.Func)
					if fn == nil || fn.FullName() != callee {
						return true
					}
					if argName != "" {
						if argIdx >= len(ce.Args) {
							return true
						}
						var id *ast.Ident
						switch a := ast.Unparen(ce.Args[argIdx]).(type) {
						case *ast.Ident:
							id = a
						case *ast.SelectorExpr:
							id = a.Sel
						}
						if id == nil {
							// a non-constant selector: conservatively counts as a possible site
							out = append(out, callSite{obj.FullName(), fmt.Sprint(r.Prog.Fset.Position(ce.Pos()))})
							return true
						}
						if id.Name != argName {
							return true
						}
					}
					out = append(out, callSite{obj.FullName(), fmt.Sprint(r.Prog.Fset.Position(ce.Pos()))})
					return true
				})
			}
		}
	}
	return out
}

// census: every call site of callee with that argument lies in one of the allowed functions.
func (r *Run) census(name, callee string, argIdx int, argName string, allowed ...string) {
	sites := r.callSitesOf(callee, argIdx, argName)
	ok := len(sites) > 0
	var bad []string
	for _, s := range sites {
		found := false
		for _, a := range allowed {
			if s.Func == a {
				found = true
			}
		}
		if !found {
			ok = false
			bad = append(bad, shortFuncName(s.Func)+" at "+s.Pos)
		}
	}
	detail := fmt.Sprintf("%d call sites; outside the allowed functions: %v", len(sites), bad)
	r.table(name, ok, fmt.Sprintf("every call %s(%s, ...) is in %v", shortFuncName(callee), argName, shortNames(allowed)), detail)
}

func shortNames(xs []string) []string {
	var out []string
	for _, x := range xs {
		out = append(out, shortFuncName(x))
	}
	return out
}

// structFields returns the field objects of a named struct type.
func (r *Run) structFields(pkgPath, typeName string) []*types.Var {
	pk := r.Prog.Pkgs[pkgPath]
	if pk == nil || pk.Types == nil {
		return nil
	}
	obj := pk.Types.Scope().Lookup(typeName)
	if obj == nil {
		return nil
	}
	st, ok := obj.Type().Underlying().(*types.Struct)
	if !ok {
		return nil
	}
	var out []*types.Var
	for i := 0; i < st.NumFields(); i++ {
		out = append(out, st.Field(i))
	}
	return out
}

// immutable: no non-test module function writes any field of the struct type (objects are built by composite literals only).
func (r *Run) immutable(name, pkgPath, typeName string) {
	fields := r.structFields(pkgPath, typeName)
	ok := len(fields) > 0
	var detail []string
	for _, f := range fields {
		if ws := r.Eng.frame.Writers(f); len(ws) > 0 || r.Eng.frame.addrTaken[f] {
			ok = false
			detail = append(detail, fmt.Sprintf("%s written by %v", f.Name(), ws))
		}
	}
	r.table(name, ok, fmt.Sprintf("no function assigns a field of %s.%s after construction", pkgPath[strings.LastIndex(pkgPath, "/")+1:], typeName), strings.Join(detail, "; "))
}

// writersUnderContract: every writer of the variable/field is a function verified for this property (so the package invariant is checked at its returns).
func (r *Run) writersUnderContract(name string, v *types.Var) {
	if v == nil {
		r.table(name, false, "variable not found", "")
		return
	}
	ok := !r.Eng.frame.addrTaken[v]
	var detail []string
	for _, n := range r.Eng.frame.allNodes() {
		if !n.writes.vars[v] {
			continue
		}
		if n.fn == nil {
			if r.initOK {
				detail = append(detail, "package initialiser (the initial value is checked separately)")
				continue
			}
			ok = false
			detail = append(detail, "a package initialiser literal writes it")
			continue
		}
		// a literal's writes are checked as part of its enclosing function (inlined) or of its own closure contract
		c := r.Prog.ContractFor(n.fn.FullName(), n.fn.Pkg().Path())
		if c == nil || c.Trusted || !propListed(c.Opts["props"], r.Prop) || c.Opts["noinv"] == "true" {
			ok = false
			detail = append(detail, shortFuncName(n.fn.FullName())+" writes it without a contract for "+r.Prop)
		} else {
			detail = append(detail, shortFuncName(n.fn.FullName())+" (under contract)")
		}
	}
	sort.Strings(detail)
	r.table(name, ok, fmt.Sprintf("every writer of %s is under contract for %s and re-establishes the package invariant", v.Name(), r.Prop), strings.Join(detail, "; "))
}

// globalField: field of a package-level variable of (possibly anonymous) struct type.
func (r *Run) globalField(pkgPath, varName, field string) *types.Var {
	pk := r.Prog.Pkgs[pkgPath]
	if pk == nil || pk.Types == nil {
		return nil
	}
	obj := pk.Types.Scope().Lookup(varName)
	if obj == nil {
		return nil
	}
	st, ok := obj.Type().Underlying().(*types.Struct)
	if !ok {
		return nil
	}
	for i := 0; i < st.NumFields(); i++ {
		if st.Field(i).Name() == field {
			return st.Field(i)
		}
	}
	return nil
}

func c22Extra(r *Run) error {
	oauth := modInternal + "server/oauth"
	r.census("C22/cache-add-census", modInternal+"caches.Add", 0, "OAuthJWTCache", oauth+".ValidateJWT")
	r.immutable("C22/cache-entry-immutable", oauth, "JWTCacheEntry")
	r.writersUnderContract("C22/jwks-keys-writers", r.globalField(oauth, "jwksCache", "keys"))
	return nil
}

// fieldUseCensus: every use of the field that can run a statement on it, replace it or let it escape lies in one of the
// allowed functions. Comparisons with nil and the calls listed in benign are not counted.
func (r *Run) fieldUseCensus(name string, field *types.Var, benign map[string]bool, what string, allowed ...string) {
	if field == nil {
		r.table(name, false, what, "field not found")
		return
	}
	var bad []string
	uses := 0
	var paths []string
	for p := range r.Prog.Pkgs {
		if strings.HasPrefix(p, "github.com/tucats/ego") {
			paths = append(paths, p)
		}
	}
	sort.Strings(paths)
	for _, p := range paths {
		pk := r.Prog.Pkgs[p]
		if pk.TypesInfo == nil {
			continue
		}
		for _, f := range pk.Syntax {
			if strings.HasSuffix(r.Prog.Fset.Position(f.Pos()).Filename, "_test.go") {
				continue
			}
			for _, d := range f.Decls {
				fd, ok := d.(*ast.FuncDecl)
				if !ok || fd.Body == nil {
					continue
				}
				obj, _ := pk.TypesInfo.Defs[fd.Name].(*types.Func)
				if obj == nil {
					continue
				}
				var stack []ast.Node
				ast.Inspect(fd.Body, func(n ast.Node) bool {
					if n == nil {
						stack = stack[:len(stack)-1]
						return true
					}
					stack = append(stack, n)
					se, ok := n.(*ast.SelectorExpr)
					if !ok {
						return true
					}
					sel := pk.TypesInfo.Selections[se]
					if sel == nil || sel.Obj() != field {
						return true
					}
					uses++
					var parent, grand ast.Node
					if len(stack) >= 2 {
						parent = stack[len(stack)-2]
					}
					if len(stack) >= 3 {
						grand = stack[len(stack)-3]
					}
					for {
						if pe, ok := parent.(*ast.ParenExpr); ok && len(stack) >= 3 {
							_ = pe
							parent, grand = grand, nil
							continue
						}
						break
					}
					switch pn := parent.(type) {
					case *ast.BinaryExpr:
						other := pn.X
						if other == ast.Expr(se) {
							other = pn.Y
						}
						if id, ok := ast.Unparen(other).(*ast.Ident); ok && id.Name == "nil" && (pn.Op.String() == "==" || pn.Op.String() == "!=") {
							return true
						}
					case *ast.SelectorExpr:
						if ce, ok := grand.(*ast.CallExpr); ok && ce.Fun == ast.Expr(pn) && benign[pn.Sel.Name] {
							return true
						}
					}
					for _, a := range allowed {
						if obj.FullName() == a {
							return true
						}
					}
					bad = append(bad, shortFuncName(obj.FullName())+" at "+fmt.Sprint(r.Prog.Fset.Position(se.Pos())))
					return true
				})
			}
		}
	}
	detail := fmt.Sprintf("%d uses of %s; outside the allowed functions: %v", uses, field.Name(), bad)
	r.table(name, uses > 0 && len(bad) == 0, what+" (allowed: "+strings.Join(shortNames(allowed), ", ")+")", detail)
}

// structField returns the field object of a named struct type.
func (r *Run) structField(pkgPath, typeName, field string) *types.Var {
	for _, f := range r.structFields(pkgPath, typeName) {
		if f.Name() == field {
			return f
		}
	}
	return nil
}

// C17: statements of a request run on its transaction. Only the Database wrappers touch the bare connection
// handle, and (by their anchored assertions) only when no transaction is open.
func c17Extra(r *Run) error {
	db := modInternal + "server/tables/database"
	benign := map[string]bool{"Close": true, "Stats": true, "Ping": true, "PingContext": true, "SetMaxOpenConns": true, "SetMaxIdleConns": true, "SetConnMaxLifetime": true, "SetConnMaxIdleTime": true, "Driver": true}
	r.fieldUseCensus("C17/bare-handle-census", r.structField(db, "Database", "Handle"), benign,
		"the connection handle Database.Handle is used to run statements, is replaced or escapes only in the Database wrappers",
		db+".Open", "(*"+db+".Database).Exec", "(*"+db+".Database).Query", "(*"+db+".Database).Begin")
	return nil
}

// mapWritersUnderContract: every function that inserts into or deletes from a map of this type is verified for this property.
func (r *Run) mapWritersUnderContract(name string, mt *types.Map) {
	if mt == nil {
		r.table(name, false, "map type not found", "")
		return
	}
	id := mapTypeID(mt)
	ok := true
	n0 := 0
	var detail []string
	for _, n := range r.Eng.frame.allNodes() {
		if !n.writes.maps[id] {
			continue
		}
		n0++
		if n.fn == nil {
			ok = false
			detail = append(detail, "a package initialiser literal writes it")
			continue
		}
		c := r.Prog.ContractFor(n.fn.FullName(), n.fn.Pkg().Path())
		if c == nil || c.Trusted || !propListed(c.Opts["props"], r.Prop) || c.Opts["noinv"] == "true" {
			ok = false
			detail = append(detail, shortFuncName(n.fn.FullName())+" writes it without a contract for "+r.Prop)
		} else {
			detail = append(detail, shortFuncName(n.fn.FullName())+" (under contract)")
		}
	}
	sort.Strings(detail)
	r.table(name, ok && n0 > 0, fmt.Sprintf("every function that inserts into or deletes from a %s is under contract for %s", types.TypeString(mt, nil), r.Prop), strings.Join(detail, "; "))
}

func (r *Run) globalVar(pkgPath, name string) *types.Var {
	pk := r.Prog.Pkgs[pkgPath]
	if pk == nil || pk.Types == nil {
		return nil
	}
	v, _ := pk.Types.Scope().Lookup(name).(*types.Var)
	return v
}

// C24: the limiter's map and records are written only by the functions whose contracts describe the transitions.
func c24Extra(r *Run) error {
	rt := modInternal + "router"
	v := r.globalVar(rt, "loginAttempts")
	r.initOK = true
	r.writersUnderContract("C24/login-attempts-var-writers", v)
	r.initOK = false
	if v != nil {
		mt, _ := v.Type().Underlying().(*types.Map)
		r.mapWritersUnderContract("C24/login-attempts-map-writers", mt)
	}
	for _, f := range []string{"failures", "lockedUntil"} {
		r.writersUnderContract("C24/record-"+f+"-writers", r.structField(rt, "loginRecord", f))
	}
	// every password check is made by a login path whose contract ties it to the limiter
	as := modInternal + "server/oauth/authserver"
	r.census("C24/password-check-census", modInternal+"server/auth.ValidatePassword", 0, "", "(*"+rt+".Session).Authenticate", as+".validatePassword")
	r.census("C24/oauth-password-check-census", as+".validatePassword", 0, "", as+".AuthorizePostHandler")
	r.boundedGoTest("C24-histories", "histories of login attempts with Basic credentials through the real Session.Authenticate agree step by step with the property read as a model (per lower-cased account a count of consecutive failures; locked at the limit: every attempt refused and nothing changes; a right password clears the count; accounts independent; limit 0 never locks); one timed history: the lock ends with the lockout period",
		"quick: 4 operations (right(a), wrong(a), wrong(A), wrong(b)), every history of length 3 at limit 2 and of length 2 at limits 0 and 1; thorough: 5 operations (+ right(b)), length 3 at limits 0 and 1, length 4 at limit 2, length 3 at limit 3; lockout 10 min; one history with lockout 1.5 s")
	return nil
}

// c28Extra: every writer of the cache table, of the Cache / Item records and of the configured lifetimes is one of
// the functions under contract (so the per-operation contracts account for every way the caches can change).
func c28Extra(r *Run) error {
	cp := modInternal + "caches"
	for _, g := range []string{"cacheList", "lifetimes", "active"} {
		v := r.globalVar(cp, g)
		r.initOK = true
		r.writersUnderContract("C28/"+g+"-var-writers", v)
		r.initOK = false
		if v != nil {
			if mt, ok := v.Type().Underlying().(*types.Map); ok {
				r.mapWritersUnderContract("C28/"+g+"-map-writers", mt)
			}
		}
	}
	for _, f := range []string{"Items", "Expiration", "MaxSize"} {
		r.writersUnderContract("C28/cache-"+f+"-writers", r.structField(cp, "Cache", f))
	}
	for _, f := range []string{"Data", "Expires"} {
		r.writersUnderContract("C28/item-"+f+"-writers", r.structField(cp, "Item", f))
	}
	if f := r.structField(cp, "Cache", "Items"); f != nil {
		if mt, ok := f.Type().Underlying().(*types.Map); ok {
			r.mapWritersUnderContract("C28/items-map-writers", mt)
		}
	}
	return nil
}

// pkgCallsInto lists the call sites, in the non-test files of package pkgPath, of functions of the external package
// extPkg (e.g. every use of package os by the assets package).
func (r *Run) pkgCallsInto(pkgPath, extPkg string) []callSite {
	var out []callSite
	pk := r.Prog.Pkgs[pkgPath]
	if pk == nil || pk.TypesInfo == nil {
		return nil
	}
	for _, f := range pk.Syntax {
		if strings.HasSuffix(r.Prog.Fset.Position(f.Pos()).Filename, "_test.go") {
			continue
		}
		ast.Inspect(f, func(n ast.Node) bool {
			return true
		})
		for _, d := range f.Decls {
			fd, ok := d.(*ast.FuncDecl)
			encl := "package initialiser"
			var body ast.Node = d
			if ok {
				if fd.Body == nil {
					continue
				}
				if obj, _ := pk.TypesInfo.Defs[fd.Name].(*types.Func); obj != nil {
					encl = obj.FullName()
				}
				body = fd.Body
			}
			ast.Inspect(body, func(n ast.Node) bool {
				ce, ok := n.(*ast.CallExpr)
				if !ok {
					return true
				}
				fn, _ := typeutil.Callee(pk.TypesInfo, ce).(*types.Func)
				if fn == nil || fn.Pkg() == nil || fn.Pkg().Path() != extPkg {
					return true
				}
				out = append(out, callSite{encl + " -> " + fn.FullName(), fmt.Sprint(r.Prog.Fset.Position(ce.Pos()))})
				return true
			})
		}
	}
	return out
}

// c39Extra: the only places the assets package touches the file system are the three calls whose path argument
// carries the confinement assertion (os.Stat and os.Open in readAssetRange, os.ReadFile in readAssetFile).
func c39Extra(r *Run) error {
	ap := modInternal + "server/assets"
	allowed := map[string]bool{
		ap + ".readAssetRange -> os.Stat":    true,
		ap + ".readAssetRange -> os.Open":    true,
		ap + ".readAssetFile -> os.ReadFile": true,
	}
	for _, ext := range []string{"os", "io/ioutil", "path/filepath"} {
		sites := r.pkgCallsInto(ap, ext)
		var bad []string
		for _, s := range sites {
			if ext == "path/filepath" {
				// pure path algebra is fine; anything that touches the disk (Walk, Glob, EvalSymlinks, Abs) is not
				fnName := s.Func[strings.LastIndex(s.Func, ".")+1:]
				switch fnName {
				case "Join", "Clean", "Ext", "Base", "Dir", "Rel", "Split", "ToSlash", "FromSlash", "IsAbs", "VolumeName":
					continue
				}
				bad = append(bad, s.Func+" at "+s.Pos)
				continue
			}
			if ext == "os" && strings.Contains(s.Func, "(*os.File).") {
				continue // methods of a file opened under the assertion
			}
			if !allowed[s.Func] {
				bad = append(bad, s.Func+" at "+s.Pos)
			}
		}
		r.table("C39/file-system-sinks["+ext+"]", len(bad) == 0, "every file-system call of the assets package is one of the sinks carrying the confinement assertion", fmt.Sprintf("%d call sites into %s; not allowed: %v", len(sites), ext, bad))
	}
	// the cache invariant is carried by cacheAsset's precondition: it must be checked at every call
	if v := r.globalVar(ap, "AssetCache"); v != nil {
		r.initOK = true
		r.writersUnderContract("C39/asset-cache-var-writers", v)
		r.initOK = false
		if mt, _ := v.Type().Underlying().(*types.Map); mt != nil {
			r.mapWritersUnderContract("C39/asset-cache-map-writers", mt)
		}
	} else {
		r.table("C39/asset-cache-var-writers", false, "variable AssetCache not found", "")
	}
	r.census("C39/cache-fill-census", ap+".cacheAsset", 0, "", ap+".Loader")
	r.census("C39/cache-lookup-census", ap+".lookupCachedAsset", 0, "", ap+".Loader")
	r.census("C39/path-resolution-census", ap+".normalizeAssetPath", 0, "", ap+".readAssetFile", ap+".readAssetRange")
	r.boundedGoTest("C39-battery", "requests through the real handler against a built tree: a path that resolves outside the root gets an error status and no outside byte; a plain request returns the file's bytes, cold or warm, in every order of two differently named assets; a byte range a-b / a- returns 206 with exactly those bytes, the matching Content-Range and Content-Length, or an error status when it selects nothing; HEAD as GET without the body",
		"10 assets (0..300 bytes), 6 files outside the root, 55 escaping spellings x 4 Range headers x GET/HEAD x cold/warm; every pair of assets; range ends at 0,1,2,n/2,n-2..n+1,n+7 and open-ended (thorough: every pair of ends for assets up to 40 bytes)")
	return nil
}

// c21Extra: the caches the coherence invariants speak about are filled only by functions under contract for C21,
// and the fields those invariants read are never written after an entry is built.
func c21Extra(r *Run) error {
	tk := modInternal + "language/tokens"
	rt := modInternal + "router"
	cp := modInternal + "caches"
	r.census("C21/token-cache-fill-census", cp+".Add", 0, "TokenCache", "(*"+rt+".Session).Authenticate")
	r.census("C21/revocation-cache-fill-census", cp+".Add", 0, "BlacklistCache", tk+".IsBlacklisted", tk+".IsIDBlacklisted")
	r.census("C21/token-cache-lookup-census", cp+".Find", 0, "TokenCache", "(*"+rt+".Session).Authenticate")
	r.census("C21/revocation-cache-lookup-census", cp+".Find", 0, "BlacklistCache", tk+".IsBlacklisted", tk+".IsIDBlacklisted")
	r.writersUnderContract("C21/revocation-row-active-writers", r.structField(tk, "BlackListItem", "Active"))
	r.writersUnderContract("C21/token-id-writers", r.structField(tk, "Token", "TokenID"))
	r.writersUnderContract("C21/token-expires-writers", r.structField(tk, "Token", "Expires"))
	return nil
}

// c23Extra: codes and refresh tokens enter their caches only where they are issued (under a freshly generated
// key), and leave only through the consume operations; tokens are minted only by the three grant handlers.
func c23Extra(r *Run) error {
	as := modInternal + "server/oauth/authserver"
	cp := modInternal + "caches"
	r.census("C23/code-issue-census", cp+".Add", 0, "OAuthCodeCache", as+".storeCode")
	r.census("C23/refresh-token-issue-census", cp+".Add", 0, "OAuthRefreshCache", as+".generateRefreshToken")
	r.census("C23/code-lookup-census", cp+".Find", 0, "OAuthCodeCache", as+".consumeCode")
	r.census("C23/refresh-token-lookup-census", cp+".Find", 0, "OAuthRefreshCache", as+".consumeRefreshToken")
	r.census("C23/consume-code-census", as+".consumeCode", 0, "", as+".handleAuthorizationCodeGrant")
	r.census("C23/consume-refresh-token-census", as+".consumeRefreshToken", 0, "", as+".handleRefreshTokenGrant", as+".RevokeHandler")
	r.census("C23/access-token-mint-census", as+".createAccessToken", 0, "", as+".handleAuthorizationCodeGrant", as+".handleRefreshTokenGrant", as+".handleClientCredentialsGrant")
	return nil
}

// secretFields: the paths to fields whose name says they hold a secret, reachable from type t through struct
// fields, pointers, slices, arrays and map values (named types visited once).
func secretFields(t types.Type, path string, seen map[types.Type]bool, out *[]string) {
	if seen[t] {
		return
	}
	seen[t] = true
	defer delete(seen, t)
	switch u := t.Underlying().(type) {
	case *types.Pointer:
		secretFields(u.Elem(), path, seen, out)
	case *types.Slice:
		secretFields(u.Elem(), path+"[]", seen, out)
	case *types.Array:
		secretFields(u.Elem(), path+"[]", seen, out)
	case *types.Map:
		secretFields(u.Elem(), path+"[k]", seen, out)
	case *types.Struct:
		for i := 0; i < u.NumFields(); i++ {
			f := u.Field(i)
			ln := strings.ToLower(f.Name())
			// a string, or a list / map of strings or bytes, whose name says secret
			holdsText := func(t types.Type) bool {
				switch x := t.Underlying().(type) {
				case *types.Basic:
					return x.Info()&types.IsString != 0
				case *types.Slice:
					if b, ok := x.Elem().Underlying().(*types.Basic); ok {
						return b.Info()&types.IsString != 0 || b.Kind() == types.Byte || b.Kind() == types.Uint8
					}
				case *types.Map:
					if b, ok := x.Elem().Underlying().(*types.Basic); ok {
						return b.Info()&types.IsString != 0
					}
				}
				return false
			}
			if holdsText(f.Type()) && (strings.Contains(ln, "password") || strings.Contains(ln, "secret")) {
				*out = append(*out, path+"."+f.Name())
				continue
			}
			secretFields(f.Type(), path+"."+f.Name(), seen, out)
		}
	}
}

// c44Extra: every util.WriteJSON call in the module whose body's static type can hold a secret-named string field
// is in a function under contract for C44 that anchors an assertion at that call.
func c44Extra(r *Run) error {
	callee := modInternal + "util.WriteJSON"
	var paths []string
	for p := range r.Prog.Pkgs {
		if strings.HasPrefix(p, "github.com/tucats/ego") {
			paths = append(paths, p)
		}
	}
	sort.Strings(paths)
	n := 0
	for _, p := range paths {
		pk := r.Prog.Pkgs[p]
		if pk.TypesInfo == nil {
			continue
		}
		for _, f := range pk.Syntax {
			if strings.HasSuffix(r.Prog.Fset.Position(f.Pos()).Filename, "_test.go") {
				continue
			}
			for _, d := range f.Decls {
				fd, ok := d.(*ast.FuncDecl)
				if !ok || fd.Body == nil {
					continue
				}
				obj, _ := pk.TypesInfo.Defs[fd.Name].(*types.Func)
				if obj == nil {
					continue
				}
				ord := 0
				ast.Inspect(fd.Body, func(nd ast.Node) bool {
					ce, ok := nd.(*ast.CallExpr)
					if !ok {
						return true
					}
					fn, _ := typeutil.Callee(pk.TypesInfo, ce).(*types.Func)
					if fn == nil || fn.FullName() != callee || len(ce.Args) < 4 {
						return true
					}
					ord++
					bt := pk.TypesInfo.TypeOf(ce.Args[3])
					var fields []string
					if bt != nil {
						secretFields(bt, "body", map[types.Type]bool{}, &fields)
					}
					if len(fields) == 0 {
						return true
					}
					n++
					c := r.Prog.ContractFor(obj.FullName(), p)
					ok2 := false
					var uncovered []string
					if c != nil && !c.Trusted && propListed(c.Opts["props"], r.Prop) {
						text := ""
						for _, a := range c.Anchored {
							if a.Kind == "assert" && a.AnchorKind == "call" && a.AnchorName == "util.WriteJSON" && (a.AnchorOrd == 0 || a.AnchorOrd == ord) {
								ok2 = true
								text += " " + a.Src
							}
						}
						// every secret-named field must be spoken of by name in those assertions ("Password" does not
						// speak for "PasswordHistory")
						for _, fp := range fields {
							name := fp[strings.LastIndex(fp, ".")+1:]
							found := false
							for _, tok := range strings.FieldsFunc(text, func(r rune) bool {
								return !(r == '_' || r >= '0' && r <= '9' || r >= 'a' && r <= 'z' || r >= 'A' && r <= 'Z')
							}) {
								if tok == name {
									found = true
								}
							}
							if !found {
								uncovered = append(uncovered, fp)
							}
						}
						if len(uncovered) > 0 {
							ok2 = false
						}
					}
					r.table(fmt.Sprintf("C44/secret-bearing-response[%s#%d]", shortFuncName(obj.FullName()), ord), ok2,
						"a response body whose type can hold a secret-named field is written only under an assertion that the field is elided",
						fmt.Sprintf("%s: body type %s, secret fields %v; not named in the assertions: %v", r.Prog.Fset.Position(ce.Pos()), types.TypeString(bt, nil), fields, uncovered))
					return true
				})
			}
		}
	}
	if n == 0 {
		r.table("C44/secret-bearing-response", false, "no secret-bearing response found (scan broken?)", "")
	}
	c44DecryptCensus(r)
	return nil
}

// c36Extra: the only functions of langlint that change the file system are rewriteFile and removeLeftovers (whose
// calls carry the ghost file-system model); everything else in the package only reads.
func c36Extra(r *Run) error {
	lp := modRoot + "tools/langlint"
	readOnly := map[string]bool{"ReadFile": true, "ReadDir": true, "Stat": true, "Lstat": true, "Getwd": true, "Exit": true, "Getenv": true, "LookupEnv": true, "IsNotExist": true, "IsExist": true, "Open": true, "Readlink": true, "Executable": true, "Getpid": true, "UserHomeDir": true, "Hostname": true, "Environ": true, "ExpandEnv": true, "TempDir": true}
	sites := r.pkgCallsInto(lp, "os")
	var bad []string
	n := 0
	for _, s := range sites {
		callee := s.Func[strings.LastIndex(s.Func, " -> ")+4:]
		encl := s.Func[:strings.LastIndex(s.Func, " -> ")]
		name := callee[strings.LastIndex(callee, ".")+1:]
		if strings.Contains(callee, "(*os.File).") {
			if name == "Close" || name == "Name" || name == "Read" || name == "Stat" || name == "Fd" {
				continue
			}
		} else if readOnly[name] {
			continue
		}
		n++
		if encl != lp+".rewriteFile" && encl != lp+".removeLeftovers" {
			bad = append(bad, s.Func+" at "+s.Pos)
		}
	}
	r.table("C36/file-system-writers", len(bad) == 0 && n > 0, "every call of langlint that can change the file system is in rewriteFile or removeLeftovers", fmt.Sprintf("%d changing calls; elsewhere: %v", n, bad))
	// names are found by listing (the trusted base speaks of os.ReadDir): path/filepath is used as path algebra only --
	// Glob, Match, Walk read a name as a pattern or walk the disk, which no contract here accounts for
	var impure []string
	fsites := r.pkgCallsInto(lp, "path/filepath")
	for _, s := range fsites {
		switch s.Func[strings.LastIndex(s.Func, ".")+1:] {
		case "Join", "Clean", "Ext", "Base", "Dir", "Split", "ToSlash", "FromSlash", "IsAbs", "VolumeName":
		default:
			impure = append(impure, s.Func+" at "+s.Pos)
		}
	}
	r.table("C36/names-are-listed-not-matched", len(impure) == 0, "langlint uses path/filepath for path algebra only (leftovers are found by listing the directory, never by a pattern)", fmt.Sprintf("%d call sites into path/filepath; not algebra: %v", len(fsites), impure))
	listed := false
	for _, s := range sites {
		if strings.HasPrefix(s.Func, lp+".removeLeftovers -> ") && strings.HasSuffix(s.Func, "os.ReadDir") {
			listed = true
		}
	}
	r.table("C36/leftovers-found-by-readdir", listed, "removeLeftovers lists the directory with os.ReadDir", "")
	return nil
}

// c37Extra: the string round trip ParseDuration(FormatDuration(d)) == d cannot be brought under contract (the
// parser is a character-level state machine over decimal numerals); a bounded enumeration stands in, labelled so.
func c37Extra(r *Run) error {
	r.boundedGoTest("C37-roundtrip", "ParseDuration(FormatDuration(d, true)) == d, and the documented spaced / day-suffixed spellings parse",
		"every whole second in [-48h, 48h]; sign x days {0,1,2,9,10,99,100,365,1000,9999,10000,41665,41666} x hours {0,1,2,9,10,11,12,22,23} x minutes, seconds {0,1,2,9,10,30,58,59} (|d| <= 10^6 h); seven documented spellings")
	return nil
}

// c32Extra: structural obligations behind "the route chosen is a function of the table, the method and the path":
// FindRoute ranges over a map exactly once (the collection of candidates), that range carries nothing from one
// iteration to the next except appending to the candidate list, sortCandidates is called after it, and FindRoute
// consults no clock and no random source.
func c32Extra(r *Run) error {
	rp := modInternal + "router"
	src := r.Prog.FuncDecls["(*"+rp+".Router).FindRoute"]
	if src == nil || src.Decl.Body == nil {
		r.table("C32/find-route-structure", false, "FindRoute not found", "")
		return nil
	}
	info := src.Pkg.TypesInfo
	var mapRanges []*ast.RangeStmt
	var sortPos, firstMapRangeEnd token.Pos
	var bad []string
	ast.Inspect(src.Decl.Body, func(n ast.Node) bool {
		switch x := n.(type) {
		case *ast.RangeStmt:
			if _, ok := info.TypeOf(x.X).Underlying().(*types.Map); ok {
				mapRanges = append(mapRanges, x)
				if firstMapRangeEnd == 0 {
					firstMapRangeEnd = x.End()
				}
			}
		case *ast.CallExpr:
			if fn, ok := typeutil.Callee(info, x).(*types.Func); ok && fn.Pkg() != nil {
				switch {
				case fn.FullName() == rp+".sortCandidates":
					if sortPos == 0 {
						sortPos = x.Pos()
					}
				case fn.Pkg().Path() == "math/rand" || fn.Pkg().Path() == "math/rand/v2" || fn.Pkg().Path() == "crypto/rand":
					bad = append(bad, "calls "+fn.FullName())
				case fn.FullName() == "time.Now" || fn.FullName() == "time.Since":
					bad = append(bad, "calls "+fn.FullName())
				}
			}
		}
		return true
	})
	if len(mapRanges) != 1 {
		bad = append(bad, fmt.Sprintf("%d ranges over a map (want exactly the collection loop)", len(mapRanges)))
	}
	if sortPos == 0 || sortPos < firstMapRangeEnd {
		bad = append(bad, "sortCandidates is not called after the collection loop")
	}
	if len(mapRanges) >= 1 {
		// variables declared outside the collection loop and assigned inside it
		loop := mapRanges[0]
		carried := map[string]bool{}
		ast.Inspect(loop.Body, func(n ast.Node) bool {
			var lhs []ast.Expr
			switch x := n.(type) {
			case *ast.AssignStmt:
				lhs = x.Lhs
			case *ast.IncDecStmt:
				lhs = []ast.Expr{x.X}
			}
			for _, l := range lhs {
				if id, ok := ast.Unparen(l).(*ast.Ident); ok {
					obj := info.Uses[id]
					if obj == nil {
						obj = info.Defs[id]
					}
					if obj != nil && (obj.Pos() < loop.Pos() || obj.Pos() > loop.End()) {
						carried[id.Name] = true
					}
				}
			}
			return true
		})
		for name := range carried {
			if name != "candidates" {
				bad = append(bad, "the collection loop carries "+name+" from one iteration to the next")
			}
		}
	}
	sort.Strings(bad)
	r.table("C32/find-route-structure", len(bad) == 0, "FindRoute's only map range is the collection of candidates (which carries nothing between iterations but the list), the list is sorted canonically after it, and no clock or random source is consulted", strings.Join(bad, "; "))
	// the canonical order is an order on what a route is -- its endpoint and method, the key of the route table --
	// and on nothing that remembers when it was registered
	var fields []string
	okCmp := false
	if sc := r.Prog.FuncDecls[rp+".sortCandidates"]; sc != nil && sc.Decl.Body != nil {
		okCmp = true
		scInfo := r.Prog.Pkgs[rp].TypesInfo
		ast.Inspect(sc.Decl.Body, func(n ast.Node) bool {
			se, ok := n.(*ast.SelectorExpr)
			if !ok {
				return true
			}
			if sel := scInfo.Selections[se]; sel != nil && sel.Kind() == types.FieldVal {
				if strings.HasSuffix(types.TypeString(sel.Recv(), nil), "router.Route") {
					if se.Sel.Name != "endpoint" && se.Sel.Name != "method" {
						okCmp = false
						fields = append(fields, se.Sel.Name)
					}
				}
			}
			return true
		})
	}
	r.table("C32/canonical-order-reads-the-route-key", okCmp, "sortCandidates compares routes by endpoint and method only (the key under which the table holds them)", fmt.Sprintf("other fields read: %v", fields))
	r.boundedGoTest("C32-tables", "for generated route tables and paths the route FindRoute chooses is the same for every registration order tried and for repeated calls, it matches the path on its own, and no matching route of the table has fewer path variables",
		"every table of 2 to 4 endpoints out of 13 (1 079 tables; the pool has a long endpoint with few variables) x 17 paths (trailing slashes, empty segments, other case, variables) x 3 registration orders (thorough: every permutation) x 4 calls")
	return nil
}

// c07Extra: the ledger, plus: every function that assigns Tokenizer.TokenP is under contract for C07 (it keeps the
// cursor non-negative), except the one place in the compiler that puts back a cursor value it read earlier.
func c07Extra(r *Run) error {
	if err := ledgerExtra(r); err != nil {
		return err
	}
	r.boundedGoTest("C07-probe", "a fixed list of source texts is compiled and run in-process without a Go panic (a reported error or a time-out is fine)",
		"383 source texts: truncated statements, every directive at the end of the text, operators on operands of the wrong kind, out-of-range indexes and slices, runtime functions with no, too few or ill-typed arguments; includes the input behind every crash repaired so far")
	tk := modInternal + "language/tokenizer"
	f := r.structField(tk, "Tokenizer", "TokenP")
	if f == nil {
		r.table("C07/cursor-writers", false, "field Tokenizer.TokenP not found", "")
		return nil
	}
	restores := map[string]bool{modInternal + "language/compiler.assignmentTargetList": true}
	var detail, bad []string
	for _, n := range r.Eng.frame.allNodes() {
		if !n.writes.vars[f] || n.fn == nil {
			continue
		}
		full := n.fn.FullName()
		c := r.Prog.ContractFor(full, n.fn.Pkg().Path())
		switch {
		case c != nil && !c.Trusted && propListed(c.Opts["props"], r.Prop):
			detail = append(detail, shortFuncName(full)+" (under contract)")
		case restores[full]:
			detail = append(detail, shortFuncName(full)+" (puts back a cursor value read from the same tokenizer earlier in the function)")
		default:
			bad = append(bad, shortFuncName(full))
		}
	}
	sort.Strings(detail)
	sort.Strings(bad)
	r.table("C07/cursor-writers", len(bad) == 0 && len(detail) > 0, "every function that assigns Tokenizer.TokenP keeps it non-negative (contract) or restores a value it read", fmt.Sprintf("writers: %v; not covered: %v", detail, bad))
	return nil
}
