package main

import (
	"fmt"
	"go/ast"
	"go/token"
	"go/types"
)

// Loops are cut at the head: invariants asserted on entry, the keys one iteration can modify
// (learned by a dry run of the iteration) havocked, invariants assumed; the back edge asserts the
// invariants and stops. After cutting, the function is loop-free.

func (fc *FnCtx) assertInvs(st *State, n int, kind string, pos token.Pos) {
	for i, inv := range fc.contract.Invariants[n] {
		t := fc.contractExprAt(st, inv, pos)
		fc.assert(st, fmt.Sprintf("%s#%d/%s", kind, n, clauseLabel(inv, i)), kind, t, pos, "invariant "+inv.Src)
	}
	if kind == "inv-step" {
		for i, inv := range fc.loopPkgInvs[n] {
			fc.assert(st, fmt.Sprintf("%s#%d/pkg-%s", kind, n, clauseLabel(inv, i)), kind, fc.invTerm(st, inv), pos, "package invariant "+inv.Src)
		}
	}
}

// loopInit: `at loop N init` ghost statements, then the invariants on entry.
func (fc *FnCtx) loopInit(st *State, n int, pos token.Pos) {
	fc.runLoopAnchors(st, "loopinit", n, pos)
	fc.assertInvs(st, n, "inv-init", pos)
}

func (fc *FnCtx) assumeInvs(st *State, n int, pos token.Pos) {
	for _, inv := range fc.contract.Invariants[n] {
		fc.assume(st, fc.contractExprAt(st, inv, pos))
	}
	for _, inv := range fc.loopPkgInvs[n] {
		fc.assume(st, fc.invTerm(st, inv))
	}
}

// loopHavoc cuts the loop state at the head. Package invariants that read a location the loop modifies
// are implicit loop invariants: asserted on entry here, assumed at the head, asserted on the back edge.
func (fc *FnCtx) loopHavoc(st *State, n int, mod []any, pos token.Pos) {
	if fc.loopPkgInvs == nil {
		fc.loopPkgInvs = map[int][]*Clause{}
	}
	pinv := fc.invsTouchedBy(mod)
	fc.loopPkgInvs[n] = pinv
	for i, inv := range pinv {
		fc.assert(st, fmt.Sprintf("inv-init#%d/pkg-%s", n, clauseLabel(inv, i)), "inv-init", fc.invTerm(st, inv), pos, "package invariant "+inv.Src)
	}
	fc.havocKeys(st, mod)
}

func (fc *FnCtx) forStmt(st *State, s *ast.ForStmt, label string) {
	if s.Init != nil {
		fc.stmt(st, s.Init)
	}
	fc.loopOrd++
	n := fc.loopOrd
	pos := s.Body.Pos()
	fc.loopInit(st, n, pos)
	mod := fc.dryRun(st, label, func(d *State) {
		ctx := fc.loops[len(fc.loops)-1]
		if s.Cond != nil {
			c := fc.expr(d, s.Cond)
			d.live = fc.newLive(tAnd(d.live, c))
		}
		fc.runLoopAnchors(d, "loopbody", n, pos)
		fc.block(d, s.Body.List)
		if s.Post != nil {
			m := fc.merge(append([]*State{d}, ctx.continues...))
			ctx.continues = nil
			if !m.dead() {
				fc.stmt(m, s.Post)
			}
			fc.become(d, m)
		}
	})
	fc.loopHavoc(st, n, mod, pos)
	fc.assumeInvs(st, n, pos)
	var cond Term = tTrue
	if s.Cond != nil {
		cond = fc.nameTerm("loopc", fc.expr(st, s.Cond))
	}
	ctx := &loopCtx{label: label, isLoop: true}
	fc.loops = append(fc.loops, ctx)
	body := st.clone()
	body.live = fc.newLive(tAnd(st.live, cond))
	fc.cover(body, fmt.Sprintf("cover-loop#%d", n), pos)
	fc.runLoopAnchors(body, "loopbody", n, pos)
	fc.block(body, s.Body.List)
	fc.loops = fc.loops[:len(fc.loops)-1]
	cont := fc.merge(append([]*State{body}, ctx.continues...))
	if s.Post != nil && !cont.dead() {
		fc.stmt(cont, s.Post)
	}
	if !cont.dead() {
		fc.assertInvs(cont, n, "inv-step", s.Body.Rbrace)
	}
	exit := st.clone()
	exit.live = fc.newLive(tAnd(st.live, tNot(cond)))
	out := fc.merge(append([]*State{exit}, ctx.breaks...))
	fc.become(st, out)
	fc.runLoopAnchors(st, "loopexit", n, s.Body.Rbrace)
}

func (fc *FnCtx) rangeStmt(st *State, s *ast.RangeStmt, label string) {
	x := fc.expr(st, s.X)
	xt := fc.typeOf(s.X)
	fc.loopOrd++
	n := fc.loopOrd
	x = fc.nameTerm("rangex", x)
	pos := s.Body.Pos()
	keyObj, valObj := fc.rangeVar(s.Key, s.Tok), fc.rangeVar(s.Value, s.Tok)
	// a struct-valued iteration variable that the body never modifies need not be copied out of the container
	valMutated := valObj != nil && fc.mutatedIn(valObj, s.Body)
	if valObj != nil && !valMutated {
		// the container's elements must not change under the un-copied alias either
		if _, _, heapWrites := fc.assignedIn(s.Body); heapWrites {
			valMutated = true
		}
	}

	switch u := xt.Underlying().(type) {
	case *types.Slice, *types.Array, *types.Basic:
		isStr := x.Sort == SStr
		isInt := false
		if b, ok := u.(*types.Basic); ok && b.Info()&types.IsInteger != 0 {
			isInt = true
		}
		idxKey := rangeIdxKey{n}
		st.vars[idxKey] = intLit(0)
		length := fc.lenOf(st, x, xt)
		if isInt {
			length = x
		}
		if keyObj != nil {
			st.vars[keyObj] = intLit(0)
		}
		fc.loopInit(st, n, pos)
		// bindIter sets the per-iteration variables in body state b for index idx; returns the index advance
		bindIter := func(b *State, idx Term) Term {
			var width Term = intLit(1)
			if keyObj != nil {
				b.vars[keyObj] = idx
			}
			if isStr {
				r := fc.fresh("rune", types.Typ[types.Rune])
				w := fc.freshSort("rw", SInt)
				b0 := fmt.Sprintf("(strat %s %s)", x.S, idx.S)
				fc.assumeGlobal(boolT(fmt.Sprintf("(and (>= %s 1) (<= %s 4))", w.S, w.S)))
				fc.assume(b, boolT(fmt.Sprintf("(<= (+ %s %s) %s)", idx.S, w.S, length.S)))
				fc.assume(b, boolT(fmt.Sprintf("(=> (< %s 128) (and (= %s %s) (= %s 1)))", b0, r.S, b0, w.S)))
				fc.assume(b, boolT(fmt.Sprintf("(=> (>= %s 128) (>= %s 128))", b0, r.S)))
				fc.assume(b, boolT(fmt.Sprintf("(>= %s 0)", r.S)))
				width = w
				b.vars[rangeWidthKey{n}] = w
				if valObj != nil {
					b.vars[valObj] = r
				}
			} else if valObj != nil && !isInt {
				var et types.Type
				switch uu := u.(type) {
				case *types.Slice:
					et = uu.Elem()
				case *types.Array:
					et = uu.Elem()
				}
				if et != nil {
					el := fc.indexTerm(nil, x, idx, et, s.Pos(), "")
					fc.allocated(b, el)
					if isStructVal(et) && valMutated {
						el = fc.copyStruct(b, el, et)
					}
					b.vars[valObj] = el
				}
			}
			return width
		}
		mod := fc.dryRun(st, label, func(d *State) {
			di := fc.freshSort("idx", SInt)
			di.T = types.Typ[types.Int]
			d.vars[idxKey] = di
			bindIter(d, di)
			fc.runLoopAnchors(d, "loopbody", n, pos)
			fc.block(d, s.Body.List)
		})
		fc.loopHavoc(st, n, mod, pos)
		idx := fc.freshSort("idx", SInt)
		idx.T = types.Typ[types.Int]
		st.vars[idxKey] = idx
		fc.assume(st, boolT(fmt.Sprintf("(and (<= 0 %s) (<= %s %s))", idx.S, idx.S, length.S)))
		if keyObj != nil {
			st.vars[keyObj] = idx
		}
		if valObj != nil {
			st.vars[valObj] = fc.fresh(valObj.Name(), valObj.Type())
		}
		fc.assumeInvs(st, n, pos)
		cond := boolT(fmt.Sprintf("(< %s %s)", idx.S, length.S))
		ctx := &loopCtx{label: label, isLoop: true}
		fc.loops = append(fc.loops, ctx)
		body := st.clone()
		body.live = fc.newLive(tAnd(st.live, cond))
		width := bindIter(body, idx)
		fc.cover(body, fmt.Sprintf("cover-loop#%d", n), pos)
		fc.runLoopAnchors(body, "loopbody", n, pos)
		fc.block(body, s.Body.List)
		fc.loops = fc.loops[:len(fc.loops)-1]
		cont := fc.merge(append([]*State{body}, ctx.continues...))
		if !cont.dead() {
			ni := Term{S: fmt.Sprintf("(+ %s %s)", idx.S, width.S), Sort: SInt, T: types.Typ[types.Int]}
			cont.vars[idxKey] = ni
			if keyObj != nil {
				cont.vars[keyObj] = ni
			}
			fc.assertInvs(cont, n, "inv-step", s.Body.Rbrace)
		}
		exit := st.clone()
		exit.live = fc.newLive(tAnd(st.live, tNot(cond)))
		out := fc.merge(append([]*State{exit}, ctx.breaks...))
		fc.become(st, out)
		fc.runLoopAnchors(st, "loopexit", n, s.Body.Rbrace)
		return
	case *types.Map:
		dk, _, _, ks, _ := fc.mapKeys(u)
		visKey := rangeVisKey{n}
		emptySet := Term{S: fmt.Sprintf("((as const %s) false)", arraySort(ks, SBool)), Sort: arraySort(ks, SBool)}
		st.vars[visKey] = emptySet
		fc.loopInit(st, n, pos)
		bindIter := func(b *State, vis Term) Term {
			dom := fc.get(b, dk, arraySort(SInt, arraySort(ks, SBool)), nil)
			k := fc.freshSort("rk", ks)
			k.T = u.Key()
			for _, f := range fc.rangeFacts(k, u.Key()) {
				fc.assumeGlobal(boolT(f))
			}
			fc.assume(b, boolT(fmt.Sprintf("(and (not (= %s 0)) (select (select %s %s) %s) (not (select %s %s)))", x.S, dom.S, x.S, k.S, vis.S, k.S)))
			if keyObj != nil {
				b.vars[keyObj] = k
			}
			if valObj != nil {
				v, _ := fc.mapRead(b, x, u, k)
				fc.allocated(b, v)
				if isStructVal(u.Elem()) && valMutated {
					v = fc.copyStruct(b, v, u.Elem())
				}
				b.vars[valObj] = v
			}
			b.vars[rangeCurKey{n}] = k
			return k
		}
		mod := fc.dryRun(st, label, func(d *State) {
			dv := fc.freshSort("visited", arraySort(ks, SBool))
			d.vars[visKey] = dv
			bindIter(d, dv)
			fc.runLoopAnchors(d, "loopbody", n, pos)
			fc.block(d, s.Body.List)
		})
		fc.loopHavoc(st, n, mod, pos)
		vis := fc.freshSort("visited", arraySort(ks, SBool))
		st.vars[visKey] = vis
		fc.assumeInvs(st, n, pos)
		more := fc.freshSort("more", SBool)
		ctx := &loopCtx{label: label, isLoop: true}
		fc.loops = append(fc.loops, ctx)
		body := st.clone()
		body.live = fc.newLive(tAnd(st.live, more))
		k := bindIter(body, vis)
		fc.cover(body, fmt.Sprintf("cover-loop#%d", n), pos)
		fc.runLoopAnchors(body, "loopbody", n, pos)
		fc.block(body, s.Body.List)
		fc.loops = fc.loops[:len(fc.loops)-1]
		cont := fc.merge(append([]*State{body}, ctx.continues...))
		if !cont.dead() {
			cont.vars[visKey] = Term{S: fmt.Sprintf("(store %s %s true)", vis.S, k.S), Sort: vis.Sort}
			fc.assertInvs(cont, n, "inv-step", s.Body.Rbrace)
		}
		exit := st.clone()
		exit.live = fc.newLive(tAnd(st.live, tNot(more)))
		// on normal exit every key still in the map has been visited
		dom2 := fc.get(exit, dk, arraySort(SInt, arraySort(ks, SBool)), nil)
		fc.assume(exit, boolT(fmt.Sprintf("(forall ((qk %s)) (! (=> (select (select %s %s) qk) (select %s qk)) :pattern ((select %s qk))))", ks, dom2.S, x.S, vis.S, vis.S)))
		out := fc.merge(append([]*State{exit}, ctx.breaks...))
		fc.become(st, out)
		fc.runLoopAnchors(st, "loopexit", n, s.Body.Rbrace)
		return
	}
	fc.note("range over %s at %s abstracted", types.TypeString(xt, nil), fc.posStr(s.Pos()))
	fc.havocAssigned(st, s, true)
}
