package main

import (
	"fmt"
	"go/ast"
	"go/constant"
	"go/printer"
	"go/token"
	"go/types"
	"io"
	"strconv"
	"strings"

	"golang.org/x/tools/go/types/typeutil"
)

func printerFprint(w io.Writer, fset *token.FileSet, n ast.Node) error {
	return printer.Fprint(w, fset, n)
}

func (fc *FnCtx) info() *types.Info { return fc.pkg.TypesInfo }

func (fc *FnCtx) typeOf(e ast.Expr) types.Type {
	if t := fc.info().TypeOf(e); t != nil {
		return t
	}
	return types.Typ[types.Invalid]
}

// ---- constants & literals ----

func (fc *FnCtx) strLit(s string) Term {
	if n, ok := fc.strLits[s]; ok {
		return Term{S: n, Sort: SStr, T: types.Typ[types.String]}
	}
	n := fmt.Sprintf("strlit!%d", len(fc.strLits))
	fc.declare(n, SStr)
	fc.emit(fmt.Sprintf("(assert (= (strlen %s) %d))", n, len(s)))
	if len(s) <= 16 {
		for i := 0; i < len(s); i++ {
			fc.emit(fmt.Sprintf("(assert (= (strat %s %d) %d))", n, i, s[i]))
		}
	}
	// distinct from the literals already introduced
	for o, on := range fc.strLits {
		if o != s {
			fc.emit(fmt.Sprintf("(assert (not (= %s %s)))", n, on))
		}
	}
	fc.strLits[s] = n
	return Term{S: n, Sort: SStr, T: types.Typ[types.String]}
}

func (fc *FnCtx) constTerm(v constant.Value, t types.Type) (Term, bool) {
	switch v.Kind() {
	case constant.Bool:
		if constant.BoolVal(v) {
			return tTrue, true
		}
		return tFalse, true
	case constant.Int:
		if sortOf(t) == SFlt {
			return fc.fltLit(v.ExactString(), t), true
		}
		s := v.ExactString()
		tm := intT(s)
		if strings.HasPrefix(s, "-") {
			tm = intT("(- " + s[1:] + ")")
		}
		tm.T = t
		return tm, true
	case constant.String:
		tm := fc.strLit(constant.StringVal(v))
		tm.T = t
		return tm, true
	case constant.Float:
		if isIntegerType(t) {
			if iv := constant.ToInt(v); iv.Kind() == constant.Int {
				return fc.constTerm(iv, t)
			}
		}
		return fc.fltLit(v.ExactString(), t), true
	}
	return Term{}, false
}

func (fc *FnCtx) fltLit(s string, t types.Type) Term {
	n := "flt_" + smtIdent(s)
	fc.declare(n, SFlt)
	return Term{S: n, Sort: SFlt, T: t}
}

func (fc *FnCtx) zeroValue(t types.Type) Term {
	switch so := sortOf(t); so {
	case SBool:
		return Term{S: "false", Sort: SBool, T: t}
	case SInt:
		if isStructVal(t) {
			return Term{} // caller allocates
		}
		return Term{S: "0", Sort: SInt, T: t}
	case SStr:
		tm := fc.strLit("")
		tm.T = t
		return tm
	case SFlt:
		return fc.fltLit("0", t)
	default:
		// nil slice: length 0
		tm := fc.fresh("nilslice", t)
		if a, ok := t.Underlying().(*types.Array); ok {
			_ = a
			return tm
		}
		fc.assumeGlobal(boolT(fmt.Sprintf("(= (slen %s) 0)", tm.S)))
		fc.assumeGlobal(boolT(fmt.Sprintf("(%s %s)", fc.sliceNilFn(tm.Sort), tm.S)))
		return tm
	}
}

func (fc *FnCtx) sliceNilFn(sort string) string {
	n := "slicenil_" + smtIdent(sliceElemSort(sort))
	fc.declareFun(n, []string{sort}, SBool)
	return n
}

// ---- allocation ----

var allocKey = heapKey{"A", "alloc"}

func (fc *FnCtx) alloc(st *State, hint string, t types.Type) Term {
	cur := fc.get(st, allocKey, SInt, nil)
	r := fc.freshSort(hint, SInt)
	r.T = t
	fc.alog = append(fc.alog, r.S)
	fc.assume(st, boolT(fmt.Sprintf("(> %s %s)", r.S, cur.S)))
	fc.assumeGlobal(boolT(fmt.Sprintf("(> %s 0)", r.S)))
	fc.set(st, allocKey, Term{S: r.S, Sort: SInt})
	return r
}

// ownedRef: a struct *value* held in a local (boxed as a reference that nothing else can reach).
// Calls cannot modify it (frame rule F1), so its fields are carried across heap havocs.
type ownedRef struct {
	ref  Term
	t    types.Type
	cond Term
}

func (fc *FnCtx) own(st *State, r Term, t types.Type) {
	if t == nil || !isStructVal(t) {
		return
	}
	fc.owned = append(fc.owned, ownedRef{ref: r, t: t, cond: st.live})
}

func (fc *FnCtx) disown(r Term) {
	for i := range fc.owned {
		if fc.owned[i].ref.S == r.S {
			fc.owned[i].cond = tFalse
		}
	}
}

// ownResult treats a struct-valued call result as a freshly allocated, locally owned value.
func (fc *FnCtx) ownResult(st *State, r Term) {
	if r.T == nil || !isStructVal(r.T) || r.Sort != SInt {
		return
	}
	cur := fc.get(st, allocKey, SInt, nil)
	fc.assume(st, boolT(fmt.Sprintf("(> %s %s)", r.S, cur.S)))
	fc.set(st, allocKey, Term{S: r.S, Sort: SInt})
	fc.alog = append(fc.alog, r.S)
	fc.own(st, r, r.T)
}

// preserveOwned re-asserts the fields of owned struct values after heap key k was havocked from old to nv.
func (fc *FnCtx) preserveOwned(st *State, k heapKey, old, nv Term) {
	f := fc.keyObj[k]
	if f == nil {
		return
	}
	for _, o := range fc.owned {
		if o.cond.S == "false" {
			continue
		}
		stT, ok := o.t.Underlying().(*types.Struct)
		if !ok {
			continue
		}
		for i := 0; i < stT.NumFields(); i++ {
			if stT.Field(i).Origin() == f {
				fc.assume(st, tImp(o.cond, boolT(fmt.Sprintf("(= (select %s %s) (select %s %s))", nv.S, o.ref.S, old.S, o.ref.S))))
			}
		}
	}
}

// allocated records that a reference value read from the heap / a parameter predates the current allocation mark.
func (fc *FnCtx) allocated(st *State, v Term) {
	if isSliceSort(v.Sort) {
		fc.allocatedElems(st, v)
		return
	}
	if v.Sort != SInt || v.T == nil {
		return
	}
	switch v.T.Underlying().(type) {
	case *types.Pointer, *types.Map, *types.Struct:
		if isTimeType(v.T) {
			return
		}
		cur := fc.get(st, allocKey, SInt, nil)
		fc.assume(st, boolT(fmt.Sprintf("(<= %s %s)", v.S, cur.S)))
	}
}

// allocatedElems: every element reference of a slice that exists now predates the current allocation mark.
func (fc *FnCtx) allocatedElems(st *State, s Term) {
	if !isSliceSort(s.Sort) || sliceElemSort(s.Sort) != SInt || s.T == nil || fc.qdepth > 0 {
		return
	}
	var et types.Type
	switch u := s.T.Underlying().(type) {
	case *types.Slice:
		et = u.Elem()
	case *types.Array:
		et = u.Elem()
	}
	if et == nil || isTimeType(et) {
		return
	}
	switch et.Underlying().(type) {
	case *types.Pointer, *types.Map, *types.Struct:
		cur := fc.get(st, allocKey, SInt, nil)
		fc.assume(st, boolT(fmt.Sprintf("(forall ((qi Int)) (! (<= (select (sarr %s) qi) %s) :pattern ((select (sarr %s) qi))))", s.S, cur.S, s.S)))
	}
}

// ---- heap access ----

func (fc *FnCtx) fieldKey(f *types.Var) heapKey {
	owner := fc.fieldOwner[f]
	pk := ""
	if f.Pkg() != nil {
		pk = f.Pkg().Name()
	}
	return heapKey{"F", fmt.Sprintf("%s.%s.%s", pk, owner, f.Name())}
}

func ownerName(t types.Type) string {
	for {
		switch u := t.(type) {
		case *types.Pointer:
			t = u.Elem()
			continue
		case *types.Named:
			return u.Obj().Name()
		case *types.Alias:
			t = types.Unalias(u)
			continue
		}
		return "anon"
	}
}

func (fc *FnCtx) fieldArr(st *State, f *types.Var, recvT types.Type) (heapKey, Term) {
	if _, ok := fc.fieldOwner[f]; !ok {
		fc.fieldOwner[f] = ownerName(recvT)
	}
	k := fc.fieldKey(f)
	fc.keyObj[k] = f.Origin()
	return k, fc.get(st, k, arraySort(SInt, sortOf(f.Type())), f.Type())
}

func (fc *FnCtx) readField(st *State, base Term, recvT types.Type, f *types.Var) Term {
	_, arr := fc.fieldArr(st, f, recvT)
	v := Term{S: fmt.Sprintf("(select %s %s)", arr.S, base.S), Sort: sortOf(f.Type()), T: f.Type()}
	if v.Sort == SStr || isSliceSort(v.Sort) || (v.Sort == SInt && !isIntegerType(f.Type())) {
		// lengths are non-negative; references are non-negative (nil = 0)
		for _, fact := range fc.rangeFacts(v, f.Type()) {
			fc.assumeGlobal(boolT(fact))
		}
	}
	return v
}

func (fc *FnCtx) writeField(st *State, base Term, recvT types.Type, f *types.Var, val Term) {
	k, arr := fc.fieldArr(st, f, recvT)
	fc.wlog = append(fc.wlog, wrec{k, base.S})
	nv := fc.freshSort(fc.keyName(k), arr.Sort)
	nv.T = f.Type()
	fc.assume(st, boolT(fmt.Sprintf("(= %s (store %s %s %s))", nv.S, arr.S, base.S, val.S)))
	fc.set(st, k, nv)
}

func derefType(t types.Type) types.Type {
	if p, ok := t.Underlying().(*types.Pointer); ok {
		return p.Elem()
	}
	return t
}

// selectPath walks the implicit embedded-field steps of a selection and returns the base reference of the final field.
func (fc *FnCtx) selectPath(st *State, base Term, baseT types.Type, index []int, pos token.Pos, what string) (Term, types.Type, *types.Var) {
	cur := base
	curT := baseT
	var f *types.Var
	for i, ix := range index {
		if _, isPtr := curT.Underlying().(*types.Pointer); isPtr {
			fc.safeNonNil(st, cur, pos, what)
		}
		stT, ok := derefType(curT).Underlying().(*types.Struct)
		if !ok {
			fc.fail("selection on non-struct %v", curT)
		}
		f = stT.Field(ix)
		if i == len(index)-1 {
			return cur, curT, f
		}
		cur = fc.readField(st, cur, curT, f)
		curT = f.Type()
	}
	return cur, curT, f
}

func (fc *FnCtx) safeNonNil(st *State, ref Term, pos token.Pos, what string) {
	if !fc.safe {
		// outside safe mode a nil dereference is a panic: execution does not continue past it
		// (sound for postconditions and sink assertions, which speak about executions that get there)
		if st != nil && ref.S != "0" && fc.qdepth == 0 && fc.inContract == 0 {
			fc.assume(st, boolT(fmt.Sprintf("(not (= %s 0))", ref.S)))
		}
		return
	}
	if ref.S == "0" {
		return
	}
	fc.safeAssert(st, "nil", boolT(fmt.Sprintf("(not (= %s 0))", ref.S)), pos, what)
}

func (fc *FnCtx) safeAssert(st *State, kind string, cond Term, pos token.Pos, text string) {
	if !fc.safe || fc.inlineDepth > 0 && false {
		return
	}
	fc.safeOrd[kind]++
	name := fmt.Sprintf("safe-%s#%d", kind, fc.safeOrd[kind])
	if ks := fc.contract.Opts["safekinds"]; ks != "" && !strings.Contains(","+ks+",", ","+kind+",") {
		// `opt safekinds=index,slice`: only these kinds of site are obligations of this contract; the others keep
		// the default (absence of that panic is assumed, and listed)
		fc.assume(st, cond)
		return
	}
	fc.assert(st, name, "safe", cond, pos, text)
}

// ---- maps ----

func (fc *FnCtx) mapKeys(m *types.Map) (dom, val, ln heapKey, ks, vs string) {
	ks, vs = sortOf(m.Key()), sortOf(m.Elem())
	id := smtIdent(types.TypeString(m, func(p *types.Package) string { return p.Name() }))
	val = heapKey{"M", "val_" + id}
	if isStructVal(m.Elem()) {
		if fc.structMaps == nil {
			fc.structMaps = map[heapKey]string{}
		}
		fc.structMaps[val] = ks
	}
	return heapKey{"M", "dom_" + id}, val, heapKey{"M", "len_" + id}, ks, vs
}

// structValsAllocated: a struct value held in a map is represented by a reference to a hidden object; every such
// reference denotes storage that exists (it is at or below the allocation mark), so an object allocated later is
// none of them. Stated once per version of the value array that is not defined from an earlier version.
func (fc *FnCtx) structValsAllocated(st *State) {
	if len(fc.structMaps) == 0 {
		return
	}
	var cur Term
	for _, k := range fc.stateKeys(st) {
		hk, ok := k.(heapKey)
		if !ok {
			continue
		}
		ks, ok := fc.structMaps[hk]
		if !ok {
			continue
		}
		v := st.vars[k]
		if fc.structValDone == nil {
			fc.structValDone = map[string]bool{}
		}
		if fc.structValDone[v.S] || strings.ContainsAny(v.S, "( ") {
			continue
		}
		fc.structValDone[v.S] = true
		if cur.S == "" {
			cur = fc.get(st, allocKey, SInt, nil)
		}
		fc.assume(st, boolT(fmt.Sprintf("(forall ((qm Int) (qk %s)) (! (<= (select (select %s qm) qk) %s) :pattern ((select (select %s qm) qk))))", ks, v.S, cur.S, v.S)))
	}
}

func (fc *FnCtx) mapRead(st *State, m Term, mt *types.Map, k Term) (val Term, ok Term) {
	dk, vk, _, ks, vs := fc.mapKeys(mt)
	dom := fc.get(st, dk, arraySort(SInt, arraySort(ks, SBool)), nil)
	va := fc.get(st, vk, arraySort(SInt, arraySort(ks, vs)), nil)
	// a nil map holds nothing
	if m.S == "0" {
		ok = tFalse
	} else {
		ok = boolT(fmt.Sprintf("(and (not (= %s 0)) (select (select %s %s) %s))", m.S, dom.S, m.S, k.S))
	}
	val = Term{S: fmt.Sprintf("(select (select %s %s) %s)", va.S, m.S, k.S), Sort: vs, T: mt.Elem()}
	return
}

func (fc *FnCtx) mapLen(st *State, m Term, mt *types.Map) Term {
	_, _, lk, _, _ := fc.mapKeys(mt)
	la := fc.get(st, lk, arraySort(SInt, SInt), nil)
	if m.S == "0" {
		return intT("0")
	}
	return intT(fmt.Sprintf("(ite (= %s 0) 0 (select %s %s))", m.S, la.S, m.S))
}

func (fc *FnCtx) mapWrite(st *State, m Term, mt *types.Map, k, v Term) {
	dk, vk, lk, ks, vs := fc.mapKeys(mt)
	dom := fc.get(st, dk, arraySort(SInt, arraySort(ks, SBool)), nil)
	va := fc.get(st, vk, arraySort(SInt, arraySort(ks, vs)), nil)
	la := fc.get(st, lk, arraySort(SInt, SInt), nil)
	had := fmt.Sprintf("(select (select %s %s) %s)", dom.S, m.S, k.S)
	nd := fc.freshSort(fc.keyName(dk), dom.Sort)
	nv := fc.freshSort(fc.keyName(vk), va.Sort)
	nl := fc.freshSort(fc.keyName(lk), la.Sort)
	fc.assume(st, boolT(fmt.Sprintf("(= %s (store %s %s (store (select %s %s) %s true)))", nd.S, dom.S, m.S, dom.S, m.S, k.S)))
	fc.assume(st, boolT(fmt.Sprintf("(= %s (store %s %s (store (select %s %s) %s %s)))", nv.S, va.S, m.S, va.S, m.S, k.S, v.S)))
	fc.assume(st, boolT(fmt.Sprintf("(= %s (store %s %s (ite %s (select %s %s) (+ (select %s %s) 1))))", nl.S, la.S, m.S, had, la.S, m.S, la.S, m.S)))
	fc.set(st, dk, nd)
	fc.set(st, vk, nv)
	fc.set(st, lk, nl)
}

func (fc *FnCtx) mapDelete(st *State, m Term, mt *types.Map, k Term) {
	dk, _, lk, ks, _ := fc.mapKeys(mt)
	dom := fc.get(st, dk, arraySort(SInt, arraySort(ks, SBool)), nil)
	la := fc.get(st, lk, arraySort(SInt, SInt), nil)
	had := fmt.Sprintf("(select (select %s %s) %s)", dom.S, m.S, k.S)
	nd := fc.freshSort(fc.keyName(dk), dom.Sort)
	nl := fc.freshSort(fc.keyName(lk), la.Sort)
	fc.assume(st, boolT(fmt.Sprintf("(= %s (store %s %s (store (select %s %s) %s false)))", nd.S, dom.S, m.S, dom.S, m.S, k.S)))
	fc.assume(st, boolT(fmt.Sprintf("(= %s (store %s %s (ite %s (- (select %s %s) 1) (select %s %s))))", nl.S, la.S, m.S, had, la.S, m.S, la.S, m.S)))
	fc.set(st, dk, nd)
	fc.set(st, lk, nl)
}

// newMap allocates an empty map.
func (fc *FnCtx) newMap(st *State, t types.Type) Term {
	mt := t.Underlying().(*types.Map)
	r := fc.alloc(st, "map", t)
	dk, _, lk, ks, _ := fc.mapKeys(mt)
	dom := fc.get(st, dk, arraySort(SInt, arraySort(ks, SBool)), nil)
	la := fc.get(st, lk, arraySort(SInt, SInt), nil)
	nd := fc.freshSort(fc.keyName(dk), dom.Sort)
	nl := fc.freshSort(fc.keyName(lk), la.Sort)
	fc.assume(st, boolT(fmt.Sprintf("(= %s (store %s %s ((as const %s) false)))", nd.S, dom.S, r.S, arraySort(ks, SBool))))
	fc.assume(st, boolT(fmt.Sprintf("(= %s (store %s %s 0))", nl.S, la.S, r.S)))
	fc.set(st, dk, nd)
	fc.set(st, lk, nl)
	return r
}

// ---- interface boxing ----

func (fc *FnCtx) tagID(t types.Type) int {
	s := types.TypeString(t, nil)
	if id, ok := fc.tags[s]; ok {
		return id
	}
	id := len(fc.tags) + 1
	fc.tags[s] = id
	return id
}

// convertTo adapts a value of static type `from` for a destination of type `to` (interface boxing).
func (fc *FnCtx) convertTo(st *State, v Term, to types.Type) Term {
	from := v.T
	if to == nil || from == nil {
		return v
	}
	if !isInterface(to) || isInterface(from) {
		return v
	}
	if b, ok := from.(*types.Basic); ok && b.Kind() == types.UntypedNil {
		return v
	}
	fc.declareFun("tagOf", []string{SInt}, SInt)
	var boxed Term
	if v.Sort == SInt {
		if _, isPtr := from.Underlying().(*types.Pointer); isPtr {
			// pointer stored in interface: keep identity; note: a nil pointer in an interface compares != nil in Go
			boxed = Term{S: v.S, Sort: SInt, T: to}
			return boxed
		}
		fn := "box_int_" + strconv.Itoa(fc.tagID(from))
		fc.declareFun(fn, []string{SInt}, SInt)
		un := "un" + fn
		fc.declareFun(un, []string{SInt}, SInt)
		boxed = Term{S: fmt.Sprintf("(%s %s)", fn, v.S), Sort: SInt, T: to}
		fc.assumeGlobal(boolT(fmt.Sprintf("(= (%s %s) %s)", un, boxed.S, v.S)))
	} else {
		fn := "box_" + smtIdent(v.Sort) + "_" + strconv.Itoa(fc.tagID(from))
		fc.declareFun(fn, []string{v.Sort}, SInt)
		un := "un" + fn
		fc.declareFun(un, []string{SInt}, v.Sort)
		boxed = Term{S: fmt.Sprintf("(%s %s)", fn, v.S), Sort: SInt, T: to}
		fc.assumeGlobal(boolT(fmt.Sprintf("(= (%s %s) %s)", un, boxed.S, v.S)))
	}
	fc.assumeGlobal(boolT(fmt.Sprintf("(> %s 0)", boxed.S)))
	fc.assumeGlobal(boolT(fmt.Sprintf("(= (tagOf %s) %d)", boxed.S, fc.tagID(from))))
	return boxed
}

func (fc *FnCtx) unbox(v Term, to types.Type) Term {
	so := sortOf(to)
	if so == SInt {
		if _, isPtr := to.Underlying().(*types.Pointer); isPtr {
			return Term{S: v.S, Sort: SInt, T: to}
		}
		fn := "unbox_int_" + strconv.Itoa(fc.tagID(to))
		fc.declareFun("box_int_"+strconv.Itoa(fc.tagID(to)), []string{SInt}, SInt)
		fc.declareFun(fn, []string{SInt}, SInt)
		fc.boxSurjective("box_int_"+strconv.Itoa(fc.tagID(to)), fn, fc.tagID(to))
		return Term{S: fmt.Sprintf("(%s %s)", fn, v.S), Sort: SInt, T: to}
	}
	fn := "unbox_" + smtIdent(so) + "_" + strconv.Itoa(fc.tagID(to))
	fc.declareFun("box_"+smtIdent(so)+"_"+strconv.Itoa(fc.tagID(to)), []string{so}, SInt)
	fc.declareFun(fn, []string{SInt}, so)
	fc.boxSurjective("box_"+smtIdent(so)+"_"+strconv.Itoa(fc.tagID(to)), fn, fc.tagID(to))
	return Term{S: fmt.Sprintf("(%s %s)", fn, v.S), Sort: so, T: to}
}

// boxSurjective: an interface value whose dynamic type is T is the box of the T value it holds (so two interface
// values of dynamic type T that hold equal values are equal). Emitted once per (type, function).
func (fc *FnCtx) boxSurjective(box, unbox string, tag int) {
	key := "ax:" + box
	if fc.declared[key] {
		return
	}
	fc.declared[key] = true
	fc.declareFun("tagOf", []string{SInt}, SInt)
	// closed formula: emitted even while a quantified contract expression is being translated
	fc.emit(fmt.Sprintf("(assert (forall ((qx Int)) (! (=> (and (not (= qx 0)) (= (tagOf qx) %d)) (= (%s (%s qx)) qx)) :pattern ((%s qx)))))", tag, box, unbox, unbox))
}

func (fc *FnCtx) hasTag(v Term, t types.Type) Term {
	fc.declareFun("tagOf", []string{SInt}, SInt)
	if isInterface(t) {
		// interface-to-interface assertion: unknown predicate, but nil never satisfies it
		fn := "implements_" + strconv.Itoa(fc.tagID(t))
		fc.declareFun(fn, []string{SInt}, SBool)
		return tAnd(boolT(fmt.Sprintf("(not (= %s 0))", v.S)), boolT(fmt.Sprintf("(%s (tagOf %s))", fn, v.S)))
	}
	return tAnd(boolT(fmt.Sprintf("(not (= %s 0))", v.S)), boolT(fmt.Sprintf("(= (tagOf %s) %d)", v.S, fc.tagID(t))))
}

// ---- expressions ----

func (fc *FnCtx) lookupVar(st *State, obj types.Object) Term {
	if v, ok := st.vars[obj]; ok {
		return v
	}
	vo, isVar := obj.(*types.Var)
	if isVar && vo.Parent() != nil && vo.Pkg() != nil && vo.Parent() == vo.Pkg().Scope() {
		// package-level variable
		return fc.get(st, vo, sortOf(vo.Type()), vo.Type())
	}
	// a local not yet assigned on this path (e.g. declared in another branch / captured)
	v := fc.fresh(obj.Name(), obj.Type())
	st.vars[obj] = v
	return v
}

func (fc *FnCtx) expr(st *State, e ast.Expr) Term {
	fc.curPos = e.Pos()
	if tv, ok := fc.info().Types[e]; ok && tv.Value != nil {
		if t, ok := fc.constTerm(tv.Value, tv.Type); ok {
			return t
		}
	}
	switch e := e.(type) {
	case *ast.ParenExpr:
		return fc.expr(st, e.X)
	case *ast.BasicLit:
		return fc.fresh("lit", fc.typeOf(e))
	case *ast.Ident:
		return fc.ident(st, e)
	case *ast.UnaryExpr:
		return fc.unary(st, e)
	case *ast.BinaryExpr:
		return fc.binary(st, e)
	case *ast.SelectorExpr:
		return fc.selector(st, e)
	case *ast.StarExpr:
		p := fc.expr(st, e.X)
		fc.safeNonNil(st, p, e.Pos(), exprText(fc.prog.Fset, e))
		et := fc.typeOf(e)
		if isStructVal(et) {
			return Term{S: p.S, Sort: SInt, T: et}
		}
		k := heapKey{"P", smtIdent(types.TypeString(et, nil))}
		arr := fc.get(st, k, arraySort(SInt, sortOf(et)), et)
		return Term{S: fmt.Sprintf("(select %s %s)", arr.S, p.S), Sort: sortOf(et), T: et}
	case *ast.IndexExpr:
		if tv, ok := fc.info().Types[e.X]; ok && !tv.IsValue() {
			// generic instantiation
			return fc.fresh("inst", fc.typeOf(e))
		}
		return fc.index(st, e)
	case *ast.SliceExpr:
		return fc.sliceExpr(st, e)
	case *ast.CallExpr:
		rs := fc.call(st, e)
		if len(rs) == 0 {
			return Term{S: "0", Sort: SInt}
		}
		return rs[0]
	case *ast.CompositeLit:
		return fc.compositeLit(st, e, false)
	case *ast.TypeAssertExpr:
		x := fc.expr(st, e.X)
		t := fc.typeOf(e)
		if fc.safe {
			fc.safeAssert(st, "assert", fc.hasTag(x, t), e.Pos(), exprText(fc.prog.Fset, e))
		}
		if isInterface(t) {
			return Term{S: x.S, Sort: SInt, T: t}
		}
		return fc.unbox(x, t)
	case *ast.FuncLit:
		// a closure that is not inlined may run at any later call: the outer locals it assigns are
		// treated as modifiable by every call from here on
		if objs, _, _ := fc.assignedIn(e.Body); len(objs) > 0 {
			for _, o := range objs {
				if o.Pos() < e.Pos() || o.Pos() > e.End() {
					if _, isVar := o.(*types.Var); isVar && o.Parent() != nil && o.Pkg() != nil && o.Parent() != o.Pkg().Scope() {
						fc.escaped[o] = true
					}
				}
			}
		}
		v := fc.fresh("funclit", fc.typeOf(e))
		fc.assumeGlobal(boolT("(> " + v.S + " 0)"))
		return v
	case *ast.KeyValueExpr:
		return fc.expr(st, e.Value)
	}
	fc.note("unmodelled expression %T at %s", e, fc.posStr(e.Pos()))
	return fc.fresh("unk", fc.typeOf(e))
}

func (fc *FnCtx) ident(st *State, e *ast.Ident) Term {
	obj := fc.info().Uses[e]
	if obj == nil {
		obj = fc.info().Defs[e]
	}
	switch o := obj.(type) {
	case *types.Nil:
		t := fc.typeOf(e)
		if isSliceSort(sortOf(t)) {
			return fc.zeroValue(t)
		}
		return Term{S: "0", Sort: SInt, T: t}
	case *types.Const:
		if t, ok := fc.constTerm(o.Val(), o.Type()); ok {
			return t
		}
	case *types.Var:
		if fc.eng.guardOf[o] != nil {
			fc.guardAccess(st, o, false, e.Pos())
		}
		v := fc.lookupVar(st, o)
		v.T = o.Type()
		return v
	case *types.Func:
		return fc.funcValue(o)
	case *types.Builtin:
	}
	if e.Name == "_" {
		return fc.fresh("blank", fc.typeOf(e))
	}
	return fc.fresh("id_"+e.Name, fc.typeOf(e))
}

func (fc *FnCtx) funcValue(f *types.Func) Term {
	n := "fn_" + smtIdent(f.FullName())
	fc.declare(n, SInt)
	fc.assumeGlobal(boolT("(> " + n + " 0)"))
	return Term{S: n, Sort: SInt, T: f.Type()}
}

func (fc *FnCtx) unary(st *State, e *ast.UnaryExpr) Term {
	switch e.Op {
	case token.NOT:
		return tNot(fc.expr(st, e.X))
	case token.SUB:
		x := fc.expr(st, e.X)
		if x.Sort == SFlt {
			fc.declareFun("fneg", []string{SFlt}, SFlt)
			return Term{S: "(fneg " + x.S + ")", Sort: SFlt, T: x.T}
		}
		return Term{S: "(- " + x.S + ")", Sort: SInt, T: fc.typeOf(e)}
	case token.ADD:
		return fc.expr(st, e.X)
	case token.AND:
		// &x
		switch x := ast.Unparen(e.X).(type) {
		case *ast.CompositeLit:
			return fc.compositeLit(st, x, true)
		case *ast.Ident:
			if isStructVal(fc.typeOf(x)) {
				v := fc.ident(st, x)
				fc.disown(v)
				return Term{S: v.S, Sort: SInt, T: fc.typeOf(e)}
			}
		case *ast.SelectorExpr:
			if isStructVal(fc.typeOf(x)) {
				v := fc.selector(st, x)
				fc.disown(v)
				return Term{S: v.S, Sort: SInt, T: fc.typeOf(e)}
			}
		case *ast.IndexExpr:
			if isStructVal(fc.typeOf(x)) {
				v := fc.index(st, x)
				fc.disown(v)
				return Term{S: v.S, Sort: SInt, T: fc.typeOf(e)}
			}
		}
		fc.note("address-of %s at %s: pointer identity abstracted", exprText(fc.prog.Fset, e.X), fc.posStr(e.Pos()))
		fc.addrTaken(st, e.X)
		r := fc.fresh("addr", fc.typeOf(e))
		fc.assumeGlobal(boolT("(> " + r.S + " 0)"))
		return r
	case token.XOR:
		x := fc.expr(st, e.X)
		return Term{S: "(- (- " + x.S + ") 1)", Sort: SInt, T: fc.typeOf(e)}
	case token.ARROW:
		fc.expr(st, e.X)
		fc.note("channel receive at %s", fc.posStr(e.Pos()))
		return fc.fresh("recv", fc.typeOf(e))
	}
	return fc.fresh("unop", fc.typeOf(e))
}

// addrTaken: the variable may now be modified through the pointer by any later call; mark it so calls havoc it.
func (fc *FnCtx) addrTaken(st *State, x ast.Expr) {
	if id, ok := ast.Unparen(x).(*ast.Ident); ok {
		if obj := fc.info().Uses[id]; obj != nil {
			if fc.noRetain > 0 {
				fc.decoded = append(fc.decoded, obj)
				return
			}
			fc.escaped[obj] = true
		}
	}
}

func hasCall(e ast.Expr) bool {
	found := false
	ast.Inspect(e, func(n ast.Node) bool {
		switch n.(type) {
		case *ast.CallExpr:
			found = true
		case *ast.FuncLit:
			return false
		}
		return !found
	})
	return found
}

func (fc *FnCtx) binary(st *State, e *ast.BinaryExpr) Term {
	switch e.Op {
	case token.LAND, token.LOR:
		l := fc.expr(st, e.X)
		guard := l
		if e.Op == token.LOR {
			guard = tNot(l)
		}
		var r Term
		if hasCall(e.Y) {
			// right operand has effects: branch and merge
			a := st.clone()
			a.live = fc.newLive(tAnd(st.live, guard))
			r = fc.expr(a, e.Y)
			r = fc.nameTerm("sc", r)
			b := st.clone()
			b.live = fc.newLive(tAnd(st.live, tNot(guard)))
			fc.become(st, fc.merge([]*State{a, b}))
		} else {
			fc.withGuard(st, guard, func() { r = fc.expr(st, e.Y) })
		}
		if e.Op == token.LAND {
			return tAnd(l, r)
		}
		return tOr(l, r)
	}
	l := fc.expr(st, e.X)
	r := fc.expr(st, e.Y)
	return fc.binop(st, e.Op.String(), l, r, fc.typeOf(e), e.Pos(), exprText(fc.prog.Fset, e))
}

// binop encodes a Go binary operator on already-translated operands (shared with contract expressions).
func (fc *FnCtx) binop(st *State, op string, l, r Term, resT types.Type, pos token.Pos, text string) Term {
	// interface vs concrete comparison: box the concrete side
	if op == "==" || op == "!=" {
		if l.T != nil && r.T != nil {
			if isInterface(l.T) && !isInterface(r.T) {
				r = fc.convertTo(st, r, l.T)
			} else if isInterface(r.T) && !isInterface(l.T) {
				l = fc.convertTo(st, l, r.T)
			}
		}
		if l.Sort != r.Sort {
			// nil vs slice
			if isSliceSort(l.Sort) && r.S == "0" {
				eq := boolT(fmt.Sprintf("(%s %s)", fc.sliceNilFn(l.Sort), l.S))
				fc.assumeGlobal(boolT(fmt.Sprintf("(=> %s (= (slen %s) 0))", eq.S, l.S)))
				if op == "!=" {
					return tNot(eq)
				}
				return eq
			}
			if isSliceSort(r.Sort) && l.S == "0" {
				return fc.binop(st, op, r, l, resT, pos, text)
			}
			fc.note("comparison of mismatched sorts %s/%s at %s", l.Sort, r.Sort, fc.posStr(pos))
			return fc.fresh("cmp", types.Typ[types.Bool])
		}
		if isSliceSort(l.Sort) {
			// in code slices are only comparable to nil; in contracts == is value equality
			var eq Term
			switch {
			case strings.HasPrefix(r.S, "nilslice!"):
				eq = boolT(fmt.Sprintf("(%s %s)", fc.sliceNilFn(l.Sort), l.S))
			case strings.HasPrefix(l.S, "nilslice!"):
				eq = boolT(fmt.Sprintf("(%s %s)", fc.sliceNilFn(l.Sort), r.S))
			default:
				eq = tEq(l, r)
			}
			if op == "!=" {
				return tNot(eq)
			}
			return eq
		}
		if l.T != nil && isStructVal(l.T) && r.T != nil && isStructVal(r.T) {
			eq := fc.structEq(st, l, r, l.T)
			if op == "!=" {
				return tNot(eq)
			}
			return eq
		}
		if l.Sort == SStr && fc.qdepth == 0 {
			// the empty string is the only string of length 0
			if e, ok := fc.strLits[""]; ok {
				for _, x := range []Term{l, r} {
					if x.S != e {
						fc.assumeGlobal(boolT(fmt.Sprintf("(= (= %s %s) (= (strlen %s) 0))", x.S, e, x.S)))
					}
				}
			}
		}
		if op == "==" {
			return tEq(l, r)
		}
		return tNot(tEq(l, r))
	}
	if l.Sort == SStr {
		switch op {
		case "+":
			return fc.strConcat(l, r)
		case "<", "<=", ">", ">=":
			fc.declareFun("strlt", []string{SStr, SStr}, SBool)
			switch op {
			case "<":
				return boolT(fmt.Sprintf("(strlt %s %s)", l.S, r.S))
			case ">":
				return boolT(fmt.Sprintf("(strlt %s %s)", r.S, l.S))
			case "<=":
				return boolT(fmt.Sprintf("(not (strlt %s %s))", r.S, l.S))
			default:
				return boolT(fmt.Sprintf("(not (strlt %s %s))", l.S, r.S))
			}
		}
	}
	if l.Sort == SFlt || r.Sort == SFlt {
		fn := "f" + map[string]string{"+": "add", "-": "sub", "*": "mul", "/": "div", "<": "lt", "<=": "le", ">": "gt", ">=": "ge"}[op]
		switch op {
		case "<", "<=", ">", ">=":
			fc.declareFun(fn, []string{SFlt, SFlt}, SBool)
			return boolT(fmt.Sprintf("(%s %s %s)", fn, l.S, r.S))
		}
		fc.declareFun(fn, []string{SFlt, SFlt}, SFlt)
		return Term{S: fmt.Sprintf("(%s %s %s)", fn, l.S, r.S), Sort: SFlt, T: resT}
	}
	if l.Sort == SBool {
		// only == != handled above
		return fc.fresh("boolop", resT)
	}
	mkI := func(f string) Term { return Term{S: fmt.Sprintf(f, l.S, r.S), Sort: SInt, T: resT} }
	var res Term
	switch op {
	case "+":
		res = mkI("(+ %s %s)")
	case "-":
		res = mkI("(- %s %s)")
	case "*":
		res = mkI("(* %s %s)")
	case "/":
		if fc.safe && st != nil {
			fc.safeAssert(st, "div", boolT(fmt.Sprintf("(not (= %s 0))", r.S)), pos, text)
		}
		res = mkI("(tdiv %s %s)")
	case "%":
		if fc.safe && st != nil {
			fc.safeAssert(st, "div", boolT(fmt.Sprintf("(not (= %s 0))", r.S)), pos, text)
		}
		res = mkI("(tmod %s %s)")
	case "<":
		return boolT(fmt.Sprintf("(< %s %s)", l.S, r.S))
	case "<=":
		return boolT(fmt.Sprintf("(<= %s %s)", l.S, r.S))
	case ">":
		return boolT(fmt.Sprintf("(> %s %s)", l.S, r.S))
	case ">=":
		return boolT(fmt.Sprintf("(>= %s %s)", l.S, r.S))
	case "&", "|", "^", "<<", ">>", "&^":
		fn := "bit_" + map[string]string{"&": "and", "|": "or", "^": "xor", "<<": "shl", ">>": "shr", "&^": "andnot"}[op]
		fc.declareFun(fn, []string{SInt, SInt}, SInt)
		res = mkI("(" + fn + " %s %s)")
		if op == "&" {
			// x & c for non-negative c lies in [0, c]
			fc.assumeGlobal(boolT(fmt.Sprintf("(=> (>= %s 0) (and (>= %s 0) (<= %s %s)))", r.S, res.S, res.S, r.S)))
		}
		return res
	default:
		return fc.fresh("binop", resT)
	}
	// wrap-around for sized unsigned kinds is not modelled: mathematical integers (assumption listed)
	return res
}

func (fc *FnCtx) strConcat(l, r Term) Term {
	fc.declareFun("strcat", []string{SStr, SStr}, SStr)
	t := Term{S: fmt.Sprintf("(strcat %s %s)", l.S, r.S), Sort: SStr, T: l.T}
	fc.assumeGlobal(boolT(fmt.Sprintf("(= (strlen %s) (+ (strlen %s) (strlen %s)))", t.S, l.S, r.S)))
	return t
}

func (fc *FnCtx) structEq(st *State, a, b Term, t types.Type) Term {
	stT := t.Underlying().(*types.Struct)
	var parts []Term
	for i := 0; i < stT.NumFields(); i++ {
		f := stT.Field(i)
		fa := fc.readField(st, a, t, f)
		fb := fc.readField(st, b, t, f)
		if isStructVal(f.Type()) {
			parts = append(parts, fc.structEq(st, fa, fb, f.Type()))
		} else {
			parts = append(parts, tEq(fa, fb))
		}
	}
	return tAnd(parts...)
}

func (fc *FnCtx) selector(st *State, e *ast.SelectorExpr) Term {
	if sel, ok := fc.info().Selections[e]; ok {
		switch sel.Kind() {
		case types.FieldVal:
			base := fc.expr(st, e.X)
			ref, rt, f := fc.selectPath(st, base, sel.Recv(), sel.Index(), e.Pos(), exprText(fc.prog.Fset, e))
			v := fc.readField(st, ref, rt, f)
			fc.allocated(st, v)
			return v
		case types.MethodVal, types.MethodExpr:
			fc.expr(st, e.X)
			v := fc.fresh("methodval", fc.typeOf(e))
			fc.assumeGlobal(boolT("(> " + v.S + " 0)"))
			return v
		}
	}
	// qualified identifier pkg.Name
	return fc.ident(st, e.Sel)
}

func (fc *FnCtx) index(st *State, e *ast.IndexExpr) Term {
	xt := fc.typeOf(e.X)
	switch u := xt.Underlying().(type) {
	case *types.Map:
		m := fc.expr(st, e.X)
		k := fc.convertTo(st, fc.expr(st, e.Index), u.Key())
		v, ok := fc.mapRead(st, m, u, k)
		// missing key yields the zero value
		zero := fc.zeroValue(u.Elem())
		if zero.S == "" {
			if isStructVal(u.Elem()) && st != nil && ok.S != "true" {
				// a missing key yields the zero struct
				z := fc.zeroStruct(st, u.Elem())
				r := tIte(ok, v, z)
				r.T = u.Elem()
				return r
			}
			return v
		}
		return tIte(ok, v, zero)
	case *types.Pointer:
		// pointer to array
		fc.note("index through pointer-to-array at %s", fc.posStr(e.Pos()))
		return fc.fresh("pidx", fc.typeOf(e))
	}
	x := fc.expr(st, e.X)
	i := fc.expr(st, e.Index)
	return fc.indexTerm(st, x, i, fc.typeOf(e), e.Pos(), exprText(fc.prog.Fset, e))
}

func (fc *FnCtx) indexTerm(st *State, x, i Term, elemT types.Type, pos token.Pos, text string) Term {
	if x.Sort == SStr {
		if fc.safe && st != nil {
			fc.safeAssert(st, "index", boolT(fmt.Sprintf("(and (<= 0 %s) (< %s (strlen %s)))", i.S, i.S, x.S)), pos, text)
		}
		t := Term{S: fmt.Sprintf("(strat %s %s)", x.S, i.S), Sort: SInt, T: types.Typ[types.Uint8]}
		fc.byteRange(t)
		return t
	}
	if isSliceSort(x.Sort) {
		if fc.safe && st != nil {
			fc.safeAssert(st, "index", boolT(fmt.Sprintf("(and (<= 0 %s) (< %s (slen %s)))", i.S, i.S, x.S)), pos, text)
		}
		t := Term{S: fmt.Sprintf("(select (sarr %s) %s)", x.S, i.S), Sort: sliceElemSort(x.Sort), T: elemT}
		if elemT != nil && isIntegerType(elemT) {
			if lo, hi, ok := intRange(elemT); ok && hi != "" {
				fc.assumeGlobal(boolT(fmt.Sprintf("(and (>= %s %s) (<= %s %s))", t.S, lo, t.S, hi)))
			}
		}
		if st != nil {
			fc.allocated(st, t)
		}
		return t
	}
	fc.note("index on unsupported sort %s at %s", x.Sort, fc.posStr(pos))
	return fc.fresh("idx", elemT)
}

func (fc *FnCtx) byteRange(t Term) {
	fc.assumeGlobal(boolT(fmt.Sprintf("(and (>= %s 0) (<= %s 255))", t.S, t.S)))
}

func (fc *FnCtx) sliceExpr(st *State, e *ast.SliceExpr) Term {
	x := fc.expr(st, e.X)
	var lo, hi Term
	if e.Low != nil {
		lo = fc.expr(st, e.Low)
	}
	if e.High != nil {
		hi = fc.expr(st, e.High)
	}
	if e.Max != nil {
		fc.expr(st, e.Max)
	}
	return fc.sliceTerm(st, x, lo, hi, fc.typeOf(e), e.Pos(), exprText(fc.prog.Fset, e))
}

// sliceTerm builds x[lo:hi]; lo/hi with empty S mean omitted.
func (fc *FnCtx) sliceTerm(st *State, x, lo, hi Term, resT types.Type, pos token.Pos, text string) Term {
	if lo.S == "" {
		lo = intLit(0)
	}
	if x.Sort == SStr {
		if hi.S == "" {
			hi = intT(fmt.Sprintf("(strlen %s)", x.S))
		}
		if fc.safe && st != nil {
			fc.safeAssert(st, "slice", boolT(fmt.Sprintf("(and (<= 0 %s) (<= %s %s) (<= %s (strlen %s)))", lo.S, lo.S, hi.S, hi.S, x.S)), pos, text)
		}
		fc.declareFun("substr", []string{SStr, SInt, SInt}, SStr)
		t := Term{S: fmt.Sprintf("(substr %s %s %s)", x.S, lo.S, hi.S), Sort: SStr, T: resT}
		fc.assumeGlobal(boolT(fmt.Sprintf("(=> (and (<= 0 %s) (<= %s %s)) (= (strlen %s) (- %s %s)))", lo.S, lo.S, hi.S, t.S, hi.S, lo.S)))
		// whole-string slice is the string itself
		fc.assumeGlobal(boolT(fmt.Sprintf("(=> (and (= %s 0) (= %s (strlen %s))) (= %s %s))", lo.S, hi.S, x.S, t.S, x.S)))
		return t
	}
	if isSliceSort(x.Sort) {
		if hi.S == "" {
			hi = intT(fmt.Sprintf("(slen %s)", x.S))
		}
		if fc.safe && st != nil {
			// capacity is not modelled; len is the (conservative) upper bound
			fc.safeAssert(st, "slice", boolT(fmt.Sprintf("(and (<= 0 %s) (<= %s %s) (<= %s (slen %s)))", lo.S, lo.S, hi.S, hi.S, x.S)), pos, text)
		}
		fn := "subslice_" + smtIdent(sliceElemSort(x.Sort))
		fc.declareFun(fn, []string{x.Sort, SInt, SInt}, x.Sort)
		t := Term{S: fmt.Sprintf("(%s %s %s %s)", fn, x.S, lo.S, hi.S), Sort: x.Sort, T: resT}
		t = fc.bindTerm("sub", t)
		fc.assumeGlobal(boolT(fmt.Sprintf("(=> (and (<= 0 %s) (<= %s %s)) (= (slen %s) (- %s %s)))", lo.S, lo.S, hi.S, t.S, hi.S, lo.S)))
		// element correspondence (quantified; pattern on the result element)
		fc.assumeGlobal(boolT(fmt.Sprintf("(forall ((qi Int)) (! (=> (and (<= 0 qi) (< qi (- %s %s))) (= (select (sarr %s) qi) (select (sarr %s) (+ qi %s)))) :pattern ((select (sarr %s) qi))))", hi.S, lo.S, t.S, x.S, lo.S, t.S)))
		fc.assumeGlobal(boolT(fmt.Sprintf("(=> (and (= %s 0) (= %s (slen %s))) (= %s %s))", lo.S, hi.S, x.S, t.S, x.S)))
		return t
	}
	fc.note("slice of unsupported sort %s at %s", x.Sort, fc.posStr(pos))
	return fc.fresh("slc", resT)
}

// bindTerm gives a term a constant name with an unconditional defining equation.
func (fc *FnCtx) bindTerm(hint string, t Term) Term {
	if fc.qdepth > 0 {
		return t
	}
	n := fc.freshName(hint)
	fc.emit(fmt.Sprintf("(define-fun %s () %s %s)", n, t.Sort, t.S))
	fc.declared[n] = true
	return Term{S: n, Sort: t.Sort, T: t.T}
}

func (fc *FnCtx) compositeLit(st *State, e *ast.CompositeLit, addr bool) Term {
	t := fc.typeOf(e)
	switch u := t.Underlying().(type) {
	case *types.Struct:
		r := fc.alloc(st, "new_"+ownerName(t), t)
		if !addr {
			fc.own(st, r, t)
		}
		set := map[int]bool{}
		for i, el := range e.Elts {
			var f *types.Var
			var ve ast.Expr
			if kv, ok := el.(*ast.KeyValueExpr); ok {
				id := kv.Key.(*ast.Ident)
				for j := 0; j < u.NumFields(); j++ {
					if u.Field(j).Name() == id.Name {
						f = u.Field(j)
						set[j] = true
					}
				}
				ve = kv.Value
			} else {
				f = u.Field(i)
				set[i] = true
				ve = el
			}
			if f == nil {
				continue
			}
			v := fc.valueFor(st, ve, f.Type())
			fc.writeField(st, r, t, f, v)
		}
		for j := 0; j < u.NumFields(); j++ {
			if !set[j] {
				f := u.Field(j)
				z := fc.zeroValue(f.Type())
				if z.S == "" {
					z = fc.zeroStruct(st, f.Type())
				}
				fc.writeField(st, r, t, f, z)
			}
		}
		if addr {
			r.T = types.NewPointer(t)
		}
		return r
	case *types.Slice, *types.Array:
		var elemT types.Type
		if s, ok := u.(*types.Slice); ok {
			elemT = s.Elem()
		} else {
			elemT = u.(*types.Array).Elem()
		}
		res := fc.fresh("slicelit", t)
		n := 0
		for _, el := range e.Elts {
			ve := el
			if kv, ok := el.(*ast.KeyValueExpr); ok {
				ve = kv.Value
				if tv, ok := fc.info().Types[kv.Key]; ok && tv.Value != nil {
					if iv, ok := constant.Int64Val(tv.Value); ok {
						n = int(iv)
					}
				}
			}
			v := fc.valueFor(st, ve, elemT)
			fc.assume(st, boolT(fmt.Sprintf("(= (select (sarr %s) %d) %s)", res.S, n, v.S)))
			n++
		}
		if _, isSl := u.(*types.Slice); isSl {
			fc.assumeGlobal(boolT(fmt.Sprintf("(= (slen %s) %d)", res.S, n)))
			fc.assumeGlobal(boolT(fmt.Sprintf("(not (%s %s))", fc.sliceNilFn(res.Sort), res.S)))
		}
		return res
	case *types.Map:
		m := fc.newMap(st, t)
		for _, el := range e.Elts {
			if kv, ok := el.(*ast.KeyValueExpr); ok {
				k := fc.valueFor(st, kv.Key, u.Key())
				v := fc.valueFor(st, kv.Value, u.Elem())
				fc.mapWrite(st, m, u, k, v)
			}
		}
		return m
	}
	return fc.fresh("complit", t)
}

func (fc *FnCtx) zeroStruct(st *State, t types.Type) Term {
	r := fc.alloc(st, "zero_"+ownerName(t), t)
	fc.own(st, r, t)
	u := t.Underlying().(*types.Struct)
	for j := 0; j < u.NumFields(); j++ {
		f := u.Field(j)
		z := fc.zeroValue(f.Type())
		if z.S == "" {
			z = fc.zeroStruct(st, f.Type())
		}
		fc.writeField(st, r, t, f, z)
	}
	return r
}

// valueFor evaluates e for storage into a location of type t (boxing, struct copy).
func (fc *FnCtx) valueFor(st *State, e ast.Expr, t types.Type) Term {
	if cl, ok := ast.Unparen(e).(*ast.CompositeLit); ok && len(cl.Elts) >= 0 && cl.Type == nil {
		// elided type in nested literal
		return fc.compositeLit(st, cl, false)
	}
	v := fc.expr(st, e)
	return fc.storeConv(st, v, e, t)
}

func (fc *FnCtx) storeConv(st *State, v Term, e ast.Expr, t types.Type) Term {
	if v.T == nil && e != nil {
		v.T = fc.typeOf(e)
	}
	if t != nil && v.S == "0" && v.Sort == SInt && sortOf(t) != SInt {
		// untyped nil stored into a slice-typed location
		if z := fc.zeroValue(t); z.S != "" {
			return z
		}
	}
	v = fc.convertTo(st, v, t)
	if t != nil && isStructVal(t) && v.T != nil && isStructVal(v.T) && needsCopy(e) {
		v = fc.copyStruct(st, v, t)
	}
	if t != nil && !isInterface(t) {
		v.T = t
	}
	return v
}

func needsCopy(e ast.Expr) bool {
	if e == nil {
		return true
	}
	switch x := ast.Unparen(e).(type) {
	case *ast.CompositeLit, *ast.CallExpr:
		return false
	case *ast.UnaryExpr:
		_ = x
	}
	return true
}

func (fc *FnCtx) copyStruct(st *State, src Term, t types.Type) Term {
	u, ok := t.Underlying().(*types.Struct)
	if !ok {
		return src
	}
	r := fc.alloc(st, "copy_"+ownerName(t), t)
	fc.own(st, r, t)
	for j := 0; j < u.NumFields(); j++ {
		f := u.Field(j)
		v := fc.readField(st, src, t, f)
		if isStructVal(f.Type()) {
			v = fc.copyStruct(st, v, f.Type())
		}
		fc.writeField(st, r, t, f, v)
	}
	return r
}

// conversion T(x)
func (fc *FnCtx) conversion(st *State, to types.Type, x Term, pos token.Pos) Term {
	from := x.T
	so := sortOf(to)
	if isInterface(to) {
		return fc.convertTo(st, x, to)
	}
	switch {
	case so == x.Sort && so == SInt:
		if isIntegerType(to) && from != nil && isIntegerType(from) {
			return fc.intConv(x, from, to)
		}
		return Term{S: x.S, Sort: SInt, T: to}
	case so == x.Sort:
		return Term{S: x.S, Sort: so, T: to}
	case so == SStr && isSliceSort(x.Sort):
		fn := "bytes2str"
		if sliceElemSort(x.Sort) != SInt {
			break
		}
		fc.declareFun(fn, []string{x.Sort}, SStr)
		t := Term{S: fmt.Sprintf("(%s %s)", fn, x.S), Sort: SStr, T: to}
		fc.assumeGlobal(boolT(fmt.Sprintf("(= (strlen %s) (slen %s))", t.S, x.S)))
		fc.assumeGlobal(boolT(fmt.Sprintf("(forall ((qi Int)) (! (=> (and (<= 0 qi) (< qi (slen %s))) (= (strat %s qi) (select (sarr %s) qi))) :pattern ((strat %s qi))))", x.S, t.S, x.S, t.S)))
		return t
	case isSliceSort(so) && x.Sort == SStr:
		if sliceElemSort(so) != SInt {
			break
		}
		if e, ok := to.Underlying().(*types.Slice); ok {
			if b, ok := e.Elem().Underlying().(*types.Basic); ok && b.Kind() != types.Uint8 {
				break // []rune(s)
			}
		}
		fn := "str2bytes"
		fc.declareFun(fn, []string{SStr}, so)
		fc.declareFun("bytes2str", []string{so}, SStr)
		t := Term{S: fmt.Sprintf("(%s %s)", fn, x.S), Sort: so, T: to}
		fc.assumeGlobal(boolT(fmt.Sprintf("(= (slen %s) (strlen %s))", t.S, x.S)))
		fc.assumeGlobal(boolT(fmt.Sprintf("(= (bytes2str %s) %s)", t.S, x.S)))
		fc.assumeGlobal(boolT(fmt.Sprintf("(forall ((qi Int)) (! (=> (and (<= 0 qi) (< qi (strlen %s))) (= (select (sarr %s) qi) (strat %s qi))) :pattern ((select (sarr %s) qi))))", x.S, t.S, x.S, t.S)))
		return t
	case so == SStr && x.Sort == SInt:
		// string(rune)
		fc.declareFun("rune2str", []string{SInt}, SStr)
		t := Term{S: fmt.Sprintf("(rune2str %s)", x.S), Sort: SStr, T: to}
		fc.assumeGlobal(boolT(fmt.Sprintf("(and (>= (strlen %s) 1) (<= (strlen %s) 4))", t.S, t.S)))
		fc.assumeGlobal(boolT(fmt.Sprintf("(=> (and (<= 0 %s) (< %s 128)) (and (= (strlen %s) 1) (= (strat %s 0) %s)))", x.S, x.S, t.S, t.S, x.S)))
		return t
	case so == SFlt && x.Sort == SInt:
		fc.declareFun("int2flt", []string{SInt}, SFlt)
		return Term{S: fmt.Sprintf("(int2flt %s)", x.S), Sort: SFlt, T: to}
	case so == SInt && x.Sort == SFlt:
		fc.declareFun("flt2int", []string{SFlt}, SInt)
		t := Term{S: fmt.Sprintf("(flt2int %s)", x.S), Sort: SInt, T: to}
		// truncation toward zero keeps the sign (magnitudes are not modelled)
		zero := fc.fltLit("0", types.Typ[types.Float64])
		fc.declareFun("fge", []string{SFlt, SFlt}, SBool)
		fc.declareFun("fle", []string{SFlt, SFlt}, SBool)
		fc.assumeGlobal(boolT(fmt.Sprintf("(=> (fge %s %s) (>= %s 0))", x.S, zero.S, t.S)))
		fc.assumeGlobal(boolT(fmt.Sprintf("(=> (fle %s %s) (<= %s 0))", x.S, zero.S, t.S)))
		fc.assumptions["float: converting a float64 to an integer keeps its sign (truncation toward zero; out-of-range conversions are not modelled)"] = true
		return t
	}
	fc.note("unmodelled conversion to %s at %s", types.TypeString(to, nil), fc.posStr(pos))
	return fc.fresh("conv", to)
}

func (fc *FnCtx) intConv(x Term, from, to types.Type) Term {
	flo, fhi, fok := intRange(from)
	tlo, thi, tok := intRange(to)
	res := Term{S: x.S, Sort: SInt, T: to}
	if !tok {
		return res // to int/int64: every modelled source fits
	}
	if fok && fhi != "" && thi != "" {
		// both sized: widening if from-range within to-range
		if cmpNum(flo) >= cmpNum(tlo) && cmpNum(fhi) <= cmpNum(thi) {
			return res
		}
	}
	if thi == "" {
		// to uint/uint64: negative wraps (2^64); keep value when non-negative
		res.S = fmt.Sprintf("(ite (>= %s 0) %s (+ %s 18446744073709551616))", x.S, x.S, x.S)
		return res
	}
	// narrowing with wrap-around
	var mod int64
	switch thi {
	case "127", "255":
		mod = 256
	case "32767", "65535":
		mod = 65536
	default:
		mod = 4294967296
	}
	if tlo == "0" {
		res.S = fmt.Sprintf("(mod %s %d)", x.S, mod)
	} else {
		res.S = fmt.Sprintf("(- (mod (+ %s %d) %d) %d)", x.S, mod/2, mod, mod/2)
	}
	return res
}

func cmpNum(s string) int64 {
	s = strings.TrimSpace(s)
	neg := false
	if strings.HasPrefix(s, "(- ") {
		neg = true
		s = strings.TrimSuffix(strings.TrimPrefix(s, "(- "), ")")
	}
	n, _ := strconv.ParseInt(s, 10, 64)
	if neg {
		return -n
	}
	return n
}

var _ = typeutil.Callee
