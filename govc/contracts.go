package main

import (
	"bufio"
	"fmt"
	"os"
	"path/filepath"
	"regexp"
	"strconv"
	"strings"
)

// Clause is one contract clause bound (later) to a function, loop or statement anchor.
type Clause struct {
	Kind  string // requires ensures invariant assert ghost assume
	Label string
	Expr  *CExpr
	Src   string
	File  string
	Line  int

	LoopN      int    // invariant: loop ordinal (1-based)
	AnchorKind string // call, aftercall, return, loopbody, entry
	AnchorName string // callee name as written at the call site (e.g. "caches.Purge", "session.handler")
	AnchorOrd  int    // 0 = every occurrence
	GhostVar   string // ghost assignment target
	Props      string // package invariant: the properties whose checks it is in force for ("" = all)
	Optional   bool   // anchored clause that may match no statement
	LoopVar    string // loop named by a variable it assigns (`loop assigning(v) ...`)
}

type FuncContract struct {
	PkgPath     string
	Key         string // types.Func FullName (or outer$local for closures)
	Written     string
	Trusted     bool
	Safe        bool
	ParamNames  []string // explicit (trusted externals)
	ResultNames []string
	Requires    []*Clause
	Ensures     []*Clause
	Assigns     []*CExpr // nil + !HasAssigns => unknown frame
	HasAssigns  bool
	Invariants  map[int][]*Clause
	Anchored    []*Clause
	Opts        map[string]string
	File        string
	Line        int
	Used        bool
	MergedFrom  *FuncContract // a caller package's trusted additions merged into this copy
	NamedLoopClauses []*Clause // invariants on loops named by an assigned variable, not yet given an ordinal
	loopsResolved bool
}

type GhostFunc struct {
	PkgPath string
	Name    string
	Params  []QVar
	Result  string
	Body    *CExpr // spec func: define-fun
	Src     string
}

type GhostVar struct {
	PkgPath string
	Name    string
	Type    string
	Init    *CExpr
}

type Axiom struct {
	PkgPath string
	Label   string
	Expr    *CExpr
	Src     string
}

type PkgContracts struct {
	PkgPath   string
	File      string
	Funcs     map[string]*FuncContract
	Ghosts    map[string]*GhostFunc
	GhostVars map[string]*GhostVar
	Axioms    []*Axiom
	Invariants []*Clause // package-level invariants
	Pure      map[string]bool // FullName keys
	Order     []string
	Guards    []*Guard
}

// Guard: `guarded(Cnn) lock : v1, v2` — package variables that may be touched only while the package-level lock is held.
type Guard struct {
	Lock     string
	Vars     []string
	Props    string
	Enforced bool // in force in this check (its ghost state exists in every check)
}

const modInternal = "github.com/tucats/ego/internal/"
const modRoot = "github.com/tucats/ego/"

// qualify turns a name as written in a contract file into a types.Func FullName.
func qualify(pkgPath, w string) string {
	w = strings.TrimSpace(w)
	w = strings.ReplaceAll(w, "@/", modInternal)
	w = strings.ReplaceAll(w, "@@/", modRoot)
	if strings.HasPrefix(w, "(") {
		// (T).M or (*T).M
		end := strings.Index(w, ")")
		if end < 0 {
			return w
		}
		recv := w[1:end]
		star := ""
		if strings.HasPrefix(recv, "*") {
			star = "*"
			recv = recv[1:]
		}
		if !strings.Contains(recv, ".") {
			recv = pkgPath + "." + recv
		}
		return "(" + star + recv + ")" + w[end+1:]
	}
	if !strings.Contains(w, ".") {
		return pkgPath + "." + w
	}
	return w
}

var (
	reFuncHdr   = regexp.MustCompile(`^(trusted\s+)?func\s+(\S+?)(\(([^)]*)\))?(\s*(returns\s*)?\(([^)]*)\))?\s*$`)
	reGhostFunc = regexp.MustCompile(`^(ghost|spec)\s+func\s+(\w+)\s*\((.*?)\)\s*([^={]+?)\s*(=\s*(.*))?$`)
	reGhostVar  = regexp.MustCompile(`^ghost\s+var\s+(\w+)\s+([^=]+?)(\s*=\s*(.*))?$`)
	reClauseProps = regexp.MustCompile(`^\((C\d+(?:\s+C\d+)*)\)\s*`)
	reLabel     = regexp.MustCompile(`^\[([\w\-.#]+)\]\s*`)
	reLoop      = regexp.MustCompile(`^loop\s+(\d+|assigning\(\w+\))\s+invariant\s*`)
	reAtCall    = regexp.MustCompile(`^(at|after)\s+call\s+(\S+)\s+#(\d+|\*|\?)\s+(assert|ghost|assume)\s*`)
	reAtReturn  = regexp.MustCompile(`^at\s+return\s+#?(\d+|\*)\s+(?:inscope\((\w+)\)\s+)?(assert|ghost)\s*`)
	reAtAssign  = regexp.MustCompile(`^at\s+assign\s+(\w+)\s+#(\d+|\*|\?)\s+(assert|ghost|assume)\s*`)
	reAtEntry   = regexp.MustCompile(`^at\s+entry\s+(ghost|assume)\s*`)
	reAtLoop    = regexp.MustCompile(`^at\s+loop\s+(\d+|assigning\(\w+\))\s+(body|exit|init)\s+(assert|ghost|assume)\s*`)
)

var clauseKeywords = []string{"guarded(", "guarded ", "requires", "ensures", "assigns", "loop ", "at ", "after ", "safe", "opt ", "func ", "trusted ", "ghost ", "spec ", "axiom", "pure ", "mode ", "props ", "invariant", "establishes ", "noinv"}

func startsWithKeyword(s string) bool {
	for _, k := range clauseKeywords {
		if strings.HasPrefix(s, k) || s == strings.TrimSpace(k) {
			return true
		}
	}
	return false
}

func splitParams(s string) []QVar {
	var out []QVar
	s = strings.TrimSpace(s)
	if s == "" {
		return nil
	}
	depth := 0
	start := 0
	var parts []string
	for i, c := range s {
		switch c {
		case '(', '[':
			depth++
		case ')', ']':
			depth--
		case ',':
			if depth == 0 {
				parts = append(parts, s[start:i])
				start = i + 1
			}
		}
	}
	parts = append(parts, s[start:])
	for _, p := range parts {
		p = strings.TrimSpace(p)
		sp := strings.IndexAny(p, " \t")
		if sp < 0 {
			out = append(out, QVar{Name: p})
		} else {
			out = append(out, QVar{Name: p[:sp], Type: strings.TrimSpace(p[sp:])})
		}
	}
	for i := len(out) - 2; i >= 0; i-- {
		if out[i].Type == "" {
			out[i].Type = out[i+1].Type
		}
	}
	return out
}

func splitNames(s string) []string {
	var out []string
	for _, p := range strings.Split(s, ",") {
		p = strings.TrimSpace(p)
		if p != "" {
			out = append(out, strings.Fields(p)[0])
		}
	}
	return out
}

// ParseContractFile reads the //@ lines of a contract file.
func ParseContractFile(path, pkgPath string) (*PkgContracts, error) {
	f, err := os.Open(path)
	if err != nil {
		return nil, err
	}
	defer f.Close()
	pc := &PkgContracts{PkgPath: pkgPath, File: path, Funcs: map[string]*FuncContract{}, Ghosts: map[string]*GhostFunc{}, GhostVars: map[string]*GhostVar{}, Pure: map[string]bool{}}

	type rawLine struct {
		text string
		line int
	}
	var lines []rawLine
	sc := bufio.NewScanner(f)
	sc.Buffer(make([]byte, 1<<20), 1<<20)
	n := 0
	for sc.Scan() {
		n++
		t := strings.TrimSpace(sc.Text())
		if !strings.HasPrefix(t, "//@") {
			continue
		}
		t = strings.TrimSpace(strings.TrimPrefix(t, "//@"))
		if t == "" || strings.HasPrefix(t, "//") || strings.HasPrefix(t, "#") {
			continue
		}
		// strip trailing comment
		if i := strings.Index(t, " // "); i >= 0 {
			t = strings.TrimSpace(t[:i])
		}
		if len(lines) > 0 && !startsWithKeyword(t) {
			lines[len(lines)-1].text += " " + t
			continue
		}
		lines = append(lines, rawLine{t, n})
	}
	var cur *FuncContract
	base := filepath.Base(filepath.Dir(path)) + "/" + filepath.Base(path)
	for _, rl := range lines {
		t := rl.text
		fail := func(e error) error { return fmt.Errorf("%s:%d: %v", path, rl.line, e) }
		mkClause := func(kind, rest string) (*Clause, error) {
			c := &Clause{Kind: kind, File: base, Line: rl.line}
			// requires(C28) / ensures(C28 C29): the clause belongs to the checks of the listed properties only
			if m := reClauseProps.FindStringSubmatch(rest); m != nil {
				c.Props = m[1]
				rest = rest[len(m[0]):]
			}
			if m := reLabel.FindStringSubmatch(rest); m != nil {
				c.Label = m[1]
				rest = rest[len(m[0]):]
			}
			c.Src = rest
			e, err := parseCExpr(rest)
			if err != nil {
				return nil, fail(err)
			}
			c.Expr = e
			return c, nil
		}
		switch {
		case strings.HasPrefix(t, "ghost func") || strings.HasPrefix(t, "spec func"):
			m := reGhostFunc.FindStringSubmatch(t)
			if m == nil {
				return nil, fail(fmt.Errorf("bad ghost func: %s", t))
			}
			g := &GhostFunc{PkgPath: pkgPath, Name: m[2], Params: splitParams(m[3]), Result: strings.TrimSpace(m[4]), Src: t}
			if m[6] != "" {
				e, err := parseCExpr(m[6])
				if err != nil {
					return nil, fail(err)
				}
				g.Body = e
			}
			pc.Ghosts[g.Name] = g
			pc.Order = append(pc.Order, g.Name)
			cur = nil
		case strings.HasPrefix(t, "ghost var"):
			m := reGhostVar.FindStringSubmatch(t)
			if m == nil {
				return nil, fail(fmt.Errorf("bad ghost var: %s", t))
			}
			gv := &GhostVar{PkgPath: pkgPath, Name: m[1], Type: strings.TrimSpace(m[2])}
			if m[4] != "" {
				e, err := parseCExpr(m[4])
				if err != nil {
					return nil, fail(err)
				}
				gv.Init = e
			}
			pc.GhostVars[gv.Name] = gv
			cur = nil
		case strings.HasPrefix(t, "axiom"):
			rest := strings.TrimSpace(strings.TrimPrefix(t, "axiom"))
			a := &Axiom{PkgPath: pkgPath, Src: rest}
			if m := reLabel.FindStringSubmatch(rest); m != nil {
				a.Label = m[1]
				rest = rest[len(m[0]):]
			}
			e, err := parseCExpr(rest)
			if err != nil {
				return nil, fail(err)
			}
			a.Expr = e
			pc.Axioms = append(pc.Axioms, a)
			cur = nil
		case strings.HasPrefix(t, "invariant"):
			// package-level (global) invariant
			// `invariant(C24 C28) [label] expr`: in force only in the checks of the properties listed
			rest := strings.TrimSpace(strings.TrimPrefix(t, "invariant"))
			props := ""
			if strings.HasPrefix(rest, "(") {
				if j := strings.Index(rest, ")"); j > 0 {
					props = strings.TrimSpace(rest[1:j])
					rest = strings.TrimSpace(rest[j+1:])
				}
			}
			c, err := mkClause("pkginv", rest)
			if err != nil {
				return nil, err
			}
			c.Props = props
			pc.Invariants = append(pc.Invariants, c)
			cur = nil
		case strings.HasPrefix(t, "guarded"):
			rest := strings.TrimSpace(strings.TrimPrefix(t, "guarded"))
			props := ""
			if strings.HasPrefix(rest, "(") {
				if j := strings.Index(rest, ")"); j > 0 {
					props = strings.TrimSpace(rest[1:j])
					rest = strings.TrimSpace(rest[j+1:])
				}
			}
			lv := strings.SplitN(rest, ":", 2)
			if len(lv) != 2 {
				return nil, fail(fmt.Errorf("bad guarded clause: %s", t))
			}
			pc.Guards = append(pc.Guards, &Guard{Lock: strings.TrimSpace(lv[0]), Vars: splitNames(lv[1]), Props: props})
			cur = nil
		case strings.HasPrefix(t, "pure "):
			for _, nm := range strings.Split(strings.TrimPrefix(t, "pure "), ",") {
				nm = strings.TrimSpace(nm)
				if nm != "" {
					pc.Pure[qualify(pkgPath, nm)] = true
				}
			}
			cur = nil
		case strings.HasPrefix(t, "func ") || strings.HasPrefix(t, "trusted func"):
			m := reFuncHdr.FindStringSubmatch(t)
			if m == nil {
				return nil, fail(fmt.Errorf("bad func header: %s", t))
			}
			fcn := &FuncContract{PkgPath: pkgPath, Written: m[2], Key: qualify(pkgPath, m[2]), Trusted: m[1] != "", Invariants: map[int][]*Clause{}, Opts: map[string]string{}, File: base, Line: rl.line}
			if m[3] != "" {
				fcn.ParamNames = splitNames(m[4])
				if fcn.ParamNames == nil {
					fcn.ParamNames = []string{}
				}
			}
			if m[5] != "" {
				fcn.ResultNames = splitNames(m[7])
			}
			if _, dup := pc.Funcs[fcn.Key]; dup {
				return nil, fail(fmt.Errorf("duplicate contract for %s", fcn.Key))
			}
			pc.Funcs[fcn.Key] = fcn
			cur = fcn
		default:
			if cur == nil {
				return nil, fail(fmt.Errorf("clause outside a func: %s", t))
			}
			switch {
			case t == "safe":
				cur.Safe = true
			case t == "noinv":
				cur.Opts["noinv"] = "true"
			case strings.HasPrefix(t, "establishes "):
				cur.Opts["establishes"] = strings.TrimSpace(strings.TrimPrefix(t, "establishes "))
			case strings.HasPrefix(t, "props "):
				cur.Opts["props"] = strings.TrimSpace(strings.TrimPrefix(t, "props "))
			case strings.HasPrefix(t, "opt "):
				kv := strings.SplitN(strings.TrimSpace(strings.TrimPrefix(t, "opt ")), "=", 2)
				if len(kv) == 1 {
					cur.Opts[strings.TrimSpace(kv[0])] = "true"
				} else {
					cur.Opts[strings.TrimSpace(kv[0])] = strings.TrimSpace(kv[1])
				}
			case strings.HasPrefix(t, "requires"):
				c, err := mkClause("requires", strings.TrimSpace(strings.TrimPrefix(t, "requires")))
				if err != nil {
					return nil, err
				}
				cur.Requires = append(cur.Requires, c)
			case strings.HasPrefix(t, "ensures"):
				c, err := mkClause("ensures", strings.TrimSpace(strings.TrimPrefix(t, "ensures")))
				if err != nil {
					return nil, err
				}
				cur.Ensures = append(cur.Ensures, c)
			case strings.HasPrefix(t, "assigns"):
				cur.HasAssigns = true
				rest := strings.TrimSpace(strings.TrimPrefix(t, "assigns"))
				if rest != "" && rest != "nothing" {
					for _, p := range splitTop(rest) {
						e, err := parseCExpr(p)
						if err != nil {
							return nil, fail(err)
						}
						cur.Assigns = append(cur.Assigns, e)
					}
				}
			case reLoop.MatchString(t):
				m := reLoop.FindStringSubmatch(t)
				c, err := mkClause("invariant", t[len(m[0]):])
				if err != nil {
					return nil, err
				}
				if strings.HasPrefix(m[1], "assigning(") {
					// the loop is named by a variable it assigns (resolved to an ordinal when the function is bound):
					// stable when loops are added or removed elsewhere in the function
					c.LoopVar = strings.TrimSuffix(strings.TrimPrefix(m[1], "assigning("), ")")
					cur.NamedLoopClauses = append(cur.NamedLoopClauses, c)
				} else {
					c.LoopN, _ = strconv.Atoi(m[1])
					cur.Invariants[c.LoopN] = append(cur.Invariants[c.LoopN], c)
				}
			case reAtCall.MatchString(t):
				m := reAtCall.FindStringSubmatch(t)
				c, err := anchoredClause(m[4], t[len(m[0]):], mkClause)
				if err != nil {
					return nil, err
				}
				c.AnchorKind = "call"
				if m[1] == "after" {
					c.AnchorKind = "aftercall"
				}
				c.AnchorName = m[2]
				switch m[3] {
				case "*":
				case "?":
					// every occurrence, and there may be none: the clause models an operation the function does not
					// perform today, so that a change which introduces it is checked rather than left unbound
					c.Optional = true
				default:
					c.AnchorOrd, _ = strconv.Atoi(m[3])
				}
				cur.Anchored = append(cur.Anchored, c)
			case reAtReturn.MatchString(t):
				m := reAtReturn.FindStringSubmatch(t)
				c, err := anchoredClause(m[3], t[len(m[0]):], mkClause)
				if err != nil {
					return nil, err
				}
				c.AnchorKind = "return"
				c.AnchorName = m[2] // inscope(x): only at the returns where local x is in scope
				if m[1] != "*" {
					c.AnchorOrd, _ = strconv.Atoi(m[1])
				}
				cur.Anchored = append(cur.Anchored, c)
			case reAtAssign.MatchString(t):
				// at assign <local> #k ...: right after the k-th assignment statement (source order) to that local
				m := reAtAssign.FindStringSubmatch(t)
				c, err := anchoredClause(m[3], t[len(m[0]):], mkClause)
				if err != nil {
					return nil, err
				}
				c.AnchorKind = "assign"
				c.AnchorName = m[1]
				switch m[2] {
				case "*":
				case "?":
					c.Optional = true
				default:
					c.AnchorOrd, _ = strconv.Atoi(m[2])
				}
				cur.Anchored = append(cur.Anchored, c)
			case reAtEntry.MatchString(t):
				m := reAtEntry.FindStringSubmatch(t)
				c, err := anchoredClause(m[1], t[len(m[0]):], mkClause)
				if err != nil {
					return nil, err
				}
				c.AnchorKind = "entry"
				cur.Anchored = append(cur.Anchored, c)
			case reAtLoop.MatchString(t):
				m := reAtLoop.FindStringSubmatch(t)
				c, err := anchoredClause(m[3], t[len(m[0]):], mkClause)
				if err != nil {
					return nil, err
				}
				c.AnchorKind = "loop" + m[2]
				if strings.HasPrefix(m[1], "assigning(") {
					c.LoopVar = strings.TrimSuffix(strings.TrimPrefix(m[1], "assigning("), ")")
				} else {
					c.LoopN, _ = strconv.Atoi(m[1])
				}
				cur.Anchored = append(cur.Anchored, c)
			default:
				return nil, fail(fmt.Errorf("unknown clause: %s", t))
			}
		}
	}
	return pc, nil
}

func anchoredClause(kind, rest string, mk func(kind, rest string) (*Clause, error)) (*Clause, error) {
	if kind == "ghost" {
		// ghost v = expr   |   ghost(C15) v = expr
		props := ""
		if m := reClauseProps.FindStringSubmatch(rest); m != nil {
			props = m[1]
			rest = rest[len(m[0]):]
		}
		eq := strings.Index(rest, "=")
		if eq < 0 {
			return nil, fmt.Errorf("ghost assignment needs '=': %s", rest)
		}
		c, err := mk("ghost", strings.TrimSpace(rest[eq+1:]))
		if err != nil {
			return nil, err
		}
		c.GhostVar = strings.TrimSpace(rest[:eq])
		if props != "" {
			c.Props = props
		}
		return c, nil
	}
	return mk(kind, rest)
}

func splitTop(s string) []string {
	var parts []string
	depth := 0
	start := 0
	for i, c := range s {
		switch c {
		case '(', '[':
			depth++
		case ')', ']':
			depth--
		case ',':
			if depth == 0 {
				parts = append(parts, strings.TrimSpace(s[start:i]))
				start = i + 1
			}
		}
	}
	parts = append(parts, strings.TrimSpace(s[start:]))
	return parts
}
