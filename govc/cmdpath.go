package main

import (
	"fmt"
	"go/types"
	"os"
	"strings"
)

// govc path <fn-suffix> <pkg.Type.field>: debugging aid: shortest call-graph path from a function to a writer of the field
func cmdPath(args []string) int {
	scratch, _ := os.MkdirTemp("", "govc-path-")
	defer os.RemoveAll(scratch)
	prog, err := LoadProgram("/repo", scratch, []string{"./..."})
	if err != nil {
		fmt.Println(err)
		return 2
	}
	f := BuildFrame(prog)
	parts := strings.Split(args[1], ".")
	var field *types.Var
	for path, pk := range prog.Pkgs {
		if !strings.HasSuffix(path, "/"+parts[0]) || pk.Types == nil {
			continue
		}
		if obj := pk.Types.Scope().Lookup(parts[1]); obj != nil {
			if st, ok := obj.Type().Underlying().(*types.Struct); ok {
				for i := 0; i < st.NumFields(); i++ {
					if st.Field(i).Name() == parts[2] {
						field = st.Field(i)
					}
				}
			}
		}
	}
	if field == nil {
		fmt.Println("field not found")
		return 2
	}
	var start *fnode
	for fn, n := range f.nodes {
		if strings.HasSuffix(fn.FullName(), args[0]) {
			start = n
		}
	}
	if len(args) > 2 && args[2] == "info" {
		fmt.Printf("node %s: callees=%d lits=%d dynTargets=%d dynSigs=%v paramCalls=%v dynamic=%v external=%v leafExt=%v params=%d\n", start.name(), len(start.callees), len(start.lits), len(start.dynTargets), start.dynSigs, start.paramCalls, start.dynamic, start.external, start.leafExt, len(start.params))
		for _, fa := range f.fnArgs {
			if fa.callee == start.fn {
				fmt.Printf("   site idx=%d lit=%v fn=%v\n", fa.idx, fa.lit != nil, fa.fn)
			}
		}
		fmt.Println("   total fnArgs:", len(f.fnArgs))
		return 0
	}
	if start == nil {
		fmt.Println("function not found")
		return 2
	}
	type item struct {
		n    *fnode
		path string
	}
	seen := map[*fnode]bool{start: true}
	queue := []item{{start, start.name()}}
	for len(queue) > 0 {
		c := queue[0]
		queue = queue[1:]
		if c.n.writes.vars[field] {
			fmt.Println("WRITER:", c.path)
			return 0
		}
		pkgOf := ""
		if c.n.fn != nil && c.n.fn.Pkg() != nil {
			pkgOf = c.n.fn.Pkg().Path()
		}
		if c.n.dynamic || c.n.external {
			fmt.Printf("reaches E via %s (dynamic=%v external=%v)\n", c.path, c.n.dynamic, c.n.external)
			return 0
		}
		push := func(t *fnode, how string) {
			if t != nil && !seen[t] {
				seen[t] = true
				queue = append(queue, item{t, c.path + " " + how + " " + t.name()})
			}
		}
		for _, cal := range c.n.callees {
			if _, ok := f.frameOf(cal, pkgOf); ok {
				continue
			}
			push(f.nodes[cal], "->")
		}
		for _, l := range c.n.lits {
			push(l, "-lit->")
		}
		for _, t := range c.n.dynTargets {
			push(t, "~dyn~>")
		}
	}
	fmt.Println("no path")
	return 0
}
