package main

import (
	"fmt"
	"go/ast"
	"go/token"
	"go/types"
	"sort"
	"strings"
)

// C03: structural obligations over the arithmetic opcodes, recomputed from /repo's syntax and types on every run.
//
//   dispatch[op:K]   the type switch of the opcode has a case for numeric kind K (the kinds the language reference
//                    prescribes for that operator)
//   case[op:K]       in that case every type assertion is to K itself, the result is computed by exactly the opcode's
//                    operator with the first operand on the left and the second on the right, and (division, modulo on
//                    integers) a zero divisor is refused before it
//   agree[increment] the fused Increment instruction handles exactly the kinds Add handles (x++ / x += k / x = x + k)
//   step-is-a-constant  every Push the compiler emits for the step of x++ / x-- is the untyped constant 1
//
// A case whose shape the scanner does not recognise is undecided (a note); the bounded battery runs the real code.

var c03Ints = []string{"byte", "int8", "int16", "uint16", "int32", "uint32", "int", "uint", "int64", "uint64"}
var c03Signed = []string{"int8", "int16", "int32", "int", "int64"}
var c03Floats = []string{"float32", "float64"}
var c03Complex = []string{"complex64", "complex128"}

type c03Op struct {
	name   string // short name in obligations
	fn     string // function in package bytecode
	op     token.Token
	kinds  []string
	left   []string // identifiers the left operand may be
	right  []string
	zeroCk bool
}

func concat(xs ...[]string) []string {
	var out []string
	for _, x := range xs {
		out = append(out, x...)
	}
	return out
}

func c03Extra(r *Run) error {
	bp := modInternal + "language/bytecode"
	numeric := concat(c03Ints, c03Floats, c03Complex)
	ops := []c03Op{
		{"add", "addByteCode", token.ADD, numeric, []string{"v1", "vx"}, []string{"v2"}, false},
		{"subtract", "subtractByteCode", token.SUB, numeric, []string{"v1", "vx"}, []string{"v2"}, false},
		{"multiply", "multiplyByteCode", token.MUL, numeric, []string{"v1", "vx"}, []string{"v2"}, false},
		{"divide", "divideByteCode", token.QUO, numeric, []string{"v1", "vx"}, []string{"v2"}, true},
		{"modulo", "moduloByteCode", token.REM, c03Ints, []string{"v1", "vx"}, []string{"v2"}, true},
		{"increment", "incrementByteCode", token.ADD, numeric, []string{"value", "v"}, []string{"increment"}, false},
	}
	fset := r.Prog.Fset
	handled := map[string]map[string]bool{}
	for _, op := range ops {
		src := r.Prog.FuncDecls[bp+"."+op.fn]
		if src == nil || src.Decl.Body == nil {
			r.table(fmt.Sprintf("C03/dispatch[%s:all]", op.name), false, op.fn+" found", "not found")
			continue
		}
		info := src.Pkg.TypesInfo
		// the type switch with the most basic-kind cases is the dispatch
		var best *ast.TypeSwitchStmt
		bestN := 0
		ast.Inspect(src.Decl.Body, func(n ast.Node) bool {
			ts, ok := n.(*ast.TypeSwitchStmt)
			if !ok {
				return true
			}
			cnt := 0
			for _, s := range ts.Body.List {
				for _, e := range s.(*ast.CaseClause).List {
					if _, ok := info.TypeOf(e).(*types.Basic); ok {
						cnt++
					}
				}
			}
			if cnt > bestN {
				best, bestN = ts, cnt
			}
			return true
		})
		cases := map[string]*ast.CaseClause{}
		if best != nil {
			for _, s := range best.Body.List {
				cc := s.(*ast.CaseClause)
				if len(cc.List) != 1 {
					continue
				}
				if b, ok := info.TypeOf(cc.List[0]).(*types.Basic); ok {
					name := b.Name()
					if name == "uint8" {
						name = "byte"
					}
					cases[name] = cc
				}
			}
		}
		handled[op.name] = map[string]bool{}
		for _, k := range op.kinds {
			cc := cases[k]
			handled[op.name][k] = cc != nil
			r.table(fmt.Sprintf("C03/dispatch[%s:%s]", op.name, k), cc != nil, fmt.Sprintf("%s has a case for %s", op.fn, k), "no case: the operation is refused for this type")
			if cc == nil {
				continue
			}
			name := fmt.Sprintf("C03/case[%s:%s]", op.name, k)
			text := fmt.Sprintf("the %s case of %s asserts both operands to %s and computes first %s second", k, op.fn, k, op.op)
			var bad []string
			unknown := false
			isKind := func(e ast.Expr) bool {
				b, ok := info.TypeOf(e).(*types.Basic)
				if !ok {
					return false
				}
				n := b.Name()
				if n == "uint8" {
					n = "byte"
				}
				return n == k
			}
			mentions1 := func(e ast.Expr, names []string) bool {
				found := false
				ast.Inspect(e, func(n ast.Node) bool {
					if id, ok := n.(*ast.Ident); ok {
						for _, nm := range names {
							if id.Name == nm {
								found = true
							}
						}
					}
					return !found
				})
				return found
			}
			opFound, zeroFound := false, false
			for _, st := range cc.Body {
				ast.Inspect(st, func(n ast.Node) bool {
					switch x := n.(type) {
					case *ast.TypeAssertExpr:
						if x.Type != nil && !isKind(x.Type) {
							bad = append(bad, "asserts an operand to "+squash(fset, x.Type))
						}
					case *ast.BinaryExpr:
						switch x.Op {
						case token.ADD, token.SUB, token.MUL, token.QUO, token.REM:
							if x.Op != op.op {
								bad = append(bad, "computes with "+x.Op.String())
							} else {
								l1, l2 := mentions1(x.X, op.left), mentions1(x.X, op.right)
								r1, r2 := mentions1(x.Y, op.left), mentions1(x.Y, op.right)
								switch {
								case l1 && !l2 && r2 && !r1:
									opFound = true
								case l2 && !l1 && r1 && !r2:
									if op.op == token.SUB || op.op == token.QUO || op.op == token.REM {
										bad = append(bad, "operands are swapped")
									} else {
										opFound = true
									}
								default:
									unknown = true
								}
							}
						case token.EQL:
							if lit, ok := x.Y.(*ast.BasicLit); ok && (lit.Value == "0" || lit.Value == "0.0") && mentions1(x.X, op.right) {
								zeroFound = true
							}
						}
					}
					return true
				})
			}
			isInt := false
			for _, ik := range c03Ints {
				if ik == k {
					isInt = true
				}
			}
			if op.zeroCk && isInt && !zeroFound {
				bad = append(bad, "no test for a zero divisor")
			}
			sort.Strings(bad)
			switch {
			case len(bad) > 0:
				r.table(name, false, text, strings.Join(bad, "; "))
			case !opFound || unknown:
				r.tableSoft(name, text, "shape of the case not recognised: undecided here; the bounded battery exercises it")
			default:
				r.table(name, true, text, "")
			}
		}
	}
	// increment handles what add handles
	{
		var diff []string
		for _, k := range numeric {
			if handled["add"][k] != handled["increment"][k] {
				diff = append(diff, k)
			}
		}
		r.table("C03/agree[increment:add]", len(diff) == 0 && len(handled["add"]) > 0, "the fused Increment instruction handles exactly the numeric kinds Add handles", "differs for: "+strings.Join(diff, " "))
	}
	// negate: every signed and floating (and complex) kind
	{
		src := r.Prog.FuncDecls[bp+".negateByteCode"]
		have := map[string]bool{}
		if src != nil && src.Decl.Body != nil {
			info := src.Pkg.TypesInfo
			ast.Inspect(src.Decl.Body, func(n ast.Node) bool {
				cc, ok := n.(*ast.CaseClause)
				if !ok {
					return true
				}
				for _, e := range cc.List {
					if b, ok := info.TypeOf(e).(*types.Basic); ok {
						// the case must negate: a unary minus on the switch variable
						neg := false
						for _, st := range cc.Body {
							ast.Inspect(st, func(m ast.Node) bool {
								if u, ok := m.(*ast.UnaryExpr); ok && u.Op == token.SUB {
									neg = true
								}
								return true
							})
						}
						if neg {
							have[b.Name()] = true
						}
					}
				}
				return true
			})
		}
		for _, k := range concat(c03Signed, c03Floats, c03Complex) {
			r.table(fmt.Sprintf("C03/dispatch[negate:%s]", k), have[k], "negateByteCode negates a value of kind "+k, "no case with a unary minus for this kind")
		}
	}
	// the step of x++ / x-- is the untyped constant 1
	{
		src := r.Prog.FuncDecls["(*"+modInternal+"language/compiler.Compiler).compileAssignment"]
		var bad []string
		pushes := 0
		if src != nil && src.Decl.Body != nil {
			ast.Inspect(src.Decl.Body, func(n ast.Node) bool {
				call, ok := n.(*ast.CallExpr)
				if !ok || len(call.Args) != 2 {
					return true
				}
				if sel, ok := call.Fun.(*ast.SelectorExpr); !ok || sel.Sel.Name != "Emit" {
					return true
				}
				if squash(fset, call.Args[0]) != "bytecode.Push" {
					return true
				}
				pushes++
				if got := squash(fset, call.Args[1]); got != "data.Constant(1)" {
					bad = append(bad, fset.Position(call.Pos()).String()+": pushes "+got)
				}
				return true
			})
		}
		r.table("C03/step-is-a-constant[compileAssignment]", len(bad) == 0 && pushes > 0, "every value compileAssignment pushes as the step of x++ / x-- is the untyped constant 1 (so it adapts to the variable's type like the literal in x += 1)", fmt.Sprintf("%d pushes; %s", pushes, strings.Join(bad, "; ")))
	}
	r.boundedGoTest("C03-matrix", "x++, x += 1 and x = x + 1 (and the -- / -= / - forms) print the same value and type, equal to Go's fixed-width result, and unary minus works, for every numeric type, boundary value and type mode; a typed pair of different kinds is promoted in dynamic and relaxed mode and refused in strict mode; an untyped constant adapts to the other operand",
		"12 numeric types x values {0, 1, 5, max-1, max, min, min+1} x 7 statement forms x 3 type modes; 12 x 12 typed pairs x {+, -, *} x 3 modes; constant on either side x 12 types x 3 modes")
	return nil
}
