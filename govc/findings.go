package main

import (
	"bufio"
	"fmt"
	"os"
	"regexp"
	"strings"
)

// Finding is one line of known_findings.txt.
type Finding struct {
	Kind       string // finding | fixed
	Prop       string
	Obligation string
	What       string
}

var reKV = regexp.MustCompile(`(\w+)=("([^"\\]|\\.)*"|\S+)`)

func LoadFindings(path string) ([]*Finding, error) {
	f, err := os.Open(path)
	if err != nil {
		if os.IsNotExist(err) {
			return nil, nil
		}
		return nil, err
	}
	defer f.Close()
	var out []*Finding
	sc := bufio.NewScanner(f)
	n := 0
	for sc.Scan() {
		n++
		line := strings.TrimSpace(sc.Text())
		if line == "" || strings.HasPrefix(line, "#") {
			continue
		}
		var fd Finding
		switch {
		case strings.HasPrefix(line, "finding:"):
			fd.Kind = "finding"
			line = strings.TrimSpace(strings.TrimPrefix(line, "finding:"))
		case strings.HasPrefix(line, "fixed:"):
			fd.Kind = "fixed"
			line = strings.TrimSpace(strings.TrimPrefix(line, "fixed:"))
		default:
			return nil, fmt.Errorf("%s:%d: line must start with finding: or fixed:", path, n)
		}
		rest := line
		for _, m := range reKV.FindAllStringSubmatch(line, -1) {
			v := strings.Trim(m[2], `"`)
			switch m[1] {
			case "property":
				fd.Prop = v
				rest = strings.Replace(rest, m[0], "", 1)
			case "obligation":
				fd.Obligation = v
				rest = strings.Replace(rest, m[0], "", 1)
			}
		}
		fd.What = strings.TrimSpace(rest)
		out = append(out, &fd)
	}
	return out, nil
}

// matchFinding: only `finding` lines suppress, and only the exact obligation they name.
func matchFinding(fs []*Finding, prop, obl string) *Finding {
	for _, f := range fs {
		if f.Kind == "finding" && f.Prop == prop && f.Obligation == obl {
			return f
		}
	}
	return nil
}
