package main

import (
	"fmt"
	"strings"
	"unicode"
)

// ---- contract expression AST ----

type CKind int

const (
	CIdent CKind = iota
	CInt
	CStr
	CChar
	CUnary  // Op, Args[0]
	CBinary // Op, Args[0], Args[1]
	CCall   // Args[0] = callee (ident or selector), Args[1:] = args
	CSel    // Args[0].Name
	CIndex  // Args[0][Args[1]]
	CSlice  // Args[0][Args[1]:Args[2]] (nil = omitted)
	CQuant  // Op = forall|exists, Vars, Args[0]
	COld    // Args[0]
	CCond   // Args[0] ? Args[1] : Args[2]
)

type QVar struct {
	Name string
	Type string
}

type CExpr struct {
	Kind CKind
	Op   string
	Name string
	Lit  string
	Args []*CExpr
	Vars []QVar
}

func (e *CExpr) String() string {
	if e == nil {
		return ""
	}
	switch e.Kind {
	case CIdent:
		return e.Name
	case CInt, CStr, CChar:
		return e.Lit
	case CUnary:
		return e.Op + e.Args[0].String()
	case CBinary:
		return "(" + e.Args[0].String() + " " + e.Op + " " + e.Args[1].String() + ")"
	case CCall:
		var a []string
		for _, x := range e.Args[1:] {
			a = append(a, x.String())
		}
		return e.Args[0].String() + "(" + strings.Join(a, ", ") + ")"
	case CSel:
		return e.Args[0].String() + "." + e.Name
	case CIndex:
		return e.Args[0].String() + "[" + e.Args[1].String() + "]"
	case CSlice:
		return e.Args[0].String() + "[" + e.Args[1].String() + ":" + e.Args[2].String() + "]"
	case CQuant:
		var v []string
		for _, q := range e.Vars {
			v = append(v, q.Name+" "+q.Type)
		}
		return "(" + e.Op + " " + strings.Join(v, ", ") + " :: " + e.Args[0].String() + ")"
	case COld:
		return "old(" + e.Args[0].String() + ")"
	case CCond:
		return "(" + e.Args[0].String() + " ? " + e.Args[1].String() + " : " + e.Args[2].String() + ")"
	}
	return "?"
}

// ---- lexer ----

type ctok struct {
	kind string // ident, int, str, char, op, eof
	text string
}

var cOps = []string{"<==>", "==>", "::", "==", "!=", "<=", ">=", "&&", "||", "<<", ">>", "&^",
	"+", "-", "*", "/", "%", "<", ">", "!", "(", ")", "[", "]", ",", ".", ":", "?", "&", "|", "^", "{", "}"}

func clex(s string) ([]ctok, error) {
	var toks []ctok
	i := 0
	for i < len(s) {
		c := s[i]
		switch {
		case c == ' ' || c == '\t':
			i++
		case c == '/' && i+1 < len(s) && s[i+1] == '/':
			i = len(s)
		case unicode.IsLetter(rune(c)) || c == '_':
			j := i
			for j < len(s) && (unicode.IsLetter(rune(s[j])) || unicode.IsDigit(rune(s[j])) || s[j] == '_') {
				j++
			}
			toks = append(toks, ctok{"ident", s[i:j]})
			i = j
		case c >= '0' && c <= '9':
			j := i
			for j < len(s) && (s[j] >= '0' && s[j] <= '9' || s[j] == '_' || s[j] == 'x' || (s[j] >= 'a' && s[j] <= 'f') || (s[j] >= 'A' && s[j] <= 'F')) {
				j++
			}
			toks = append(toks, ctok{"int", s[i:j]})
			i = j
		case c == '"':
			j := i + 1
			for j < len(s) && s[j] != '"' {
				if s[j] == '\\' {
					j++
				}
				j++
			}
			if j >= len(s) {
				return nil, fmt.Errorf("unterminated string in %q", s)
			}
			toks = append(toks, ctok{"str", s[i : j+1]})
			i = j + 1
		case c == '\'':
			j := i + 1
			for j < len(s) && s[j] != '\'' {
				if s[j] == '\\' {
					j++
				}
				j++
			}
			if j >= len(s) {
				return nil, fmt.Errorf("unterminated char in %q", s)
			}
			toks = append(toks, ctok{"char", s[i : j+1]})
			i = j + 1
		default:
			matched := false
			for _, op := range cOps {
				if strings.HasPrefix(s[i:], op) {
					toks = append(toks, ctok{"op", op})
					i += len(op)
					matched = true
					break
				}
			}
			if !matched {
				return nil, fmt.Errorf("bad character %q in %q", c, s)
			}
		}
	}
	toks = append(toks, ctok{"eof", ""})
	return toks, nil
}

// ---- parser ----

type cparser struct {
	toks []ctok
	p    int
	src  string
}

func parseCExpr(src string) (*CExpr, error) {
	toks, err := clex(src)
	if err != nil {
		return nil, err
	}
	ps := &cparser{toks: toks, src: src}
	var e *CExpr
	func() {
		defer func() {
			if r := recover(); r != nil {
				if pe, ok := r.(cparseErr); ok {
					err = fmt.Errorf("%s in %q", string(pe), src)
					return
				}
				panic(r)
			}
		}()
		e = ps.iff()
		if ps.peek().kind != "eof" {
			ps.fail("unexpected token " + ps.peek().text)
		}
	}()
	return e, err
}

type cparseErr string

func (ps *cparser) fail(msg string)  { panic(cparseErr(msg)) }
func (ps *cparser) peek() ctok       { return ps.toks[ps.p] }
func (ps *cparser) next() ctok       { t := ps.toks[ps.p]; ps.p++; return t }
func (ps *cparser) isOp(s string) bool { t := ps.peek(); return t.kind == "op" && t.text == s }
func (ps *cparser) accept(s string) bool {
	if ps.isOp(s) {
		ps.p++
		return true
	}
	return false
}
func (ps *cparser) expect(s string) {
	if !ps.accept(s) {
		ps.fail("expected " + s + " got " + ps.peek().text)
	}
}

func (ps *cparser) iff() *CExpr {
	l := ps.implies()
	for ps.accept("<==>") {
		r := ps.implies()
		l = &CExpr{Kind: CBinary, Op: "<==>", Args: []*CExpr{l, r}}
	}
	return l
}

func (ps *cparser) implies() *CExpr {
	l := ps.cond()
	if ps.accept("==>") {
		r := ps.implies()
		return &CExpr{Kind: CBinary, Op: "==>", Args: []*CExpr{l, r}}
	}
	return l
}

func (ps *cparser) cond() *CExpr {
	c := ps.orE()
	if ps.accept("?") {
		a := ps.cond()
		ps.expect(":")
		b := ps.cond()
		return &CExpr{Kind: CCond, Args: []*CExpr{c, a, b}}
	}
	return c
}

func (ps *cparser) orE() *CExpr {
	l := ps.andE()
	for ps.accept("||") {
		r := ps.andE()
		l = &CExpr{Kind: CBinary, Op: "||", Args: []*CExpr{l, r}}
	}
	return l
}

func (ps *cparser) andE() *CExpr {
	l := ps.cmp()
	for ps.accept("&&") {
		r := ps.cmp()
		l = &CExpr{Kind: CBinary, Op: "&&", Args: []*CExpr{l, r}}
	}
	return l
}

func (ps *cparser) cmp() *CExpr {
	l := ps.add()
	for {
		t := ps.peek()
		if t.kind == "op" && (t.text == "==" || t.text == "!=" || t.text == "<" || t.text == "<=" || t.text == ">" || t.text == ">=") {
			ps.p++
			r := ps.add()
			l = &CExpr{Kind: CBinary, Op: t.text, Args: []*CExpr{l, r}}
			continue
		}
		if t.kind == "ident" && t.text == "in" {
			ps.p++
			r := ps.add()
			l = &CExpr{Kind: CBinary, Op: "in", Args: []*CExpr{l, r}}
			continue
		}
		return l
	}
}

func (ps *cparser) add() *CExpr {
	l := ps.mul()
	for {
		t := ps.peek()
		if t.kind == "op" && (t.text == "+" || t.text == "-" || t.text == "|" || t.text == "^") {
			ps.p++
			r := ps.mul()
			l = &CExpr{Kind: CBinary, Op: t.text, Args: []*CExpr{l, r}}
			continue
		}
		return l
	}
}

func (ps *cparser) mul() *CExpr {
	l := ps.unary()
	for {
		t := ps.peek()
		if t.kind == "op" && (t.text == "*" || t.text == "/" || t.text == "%" || t.text == "&" || t.text == "<<" || t.text == ">>" || t.text == "&^") {
			ps.p++
			r := ps.unary()
			l = &CExpr{Kind: CBinary, Op: t.text, Args: []*CExpr{l, r}}
			continue
		}
		return l
	}
}

func (ps *cparser) unary() *CExpr {
	t := ps.peek()
	if t.kind == "op" && (t.text == "!" || t.text == "-") {
		ps.p++
		x := ps.unary()
		return &CExpr{Kind: CUnary, Op: t.text, Args: []*CExpr{x}}
	}
	return ps.postfix()
}

func (ps *cparser) postfix() *CExpr {
	x := ps.primary()
	for {
		switch {
		case ps.accept("."):
			t := ps.next()
			if t.kind != "ident" {
				ps.fail("expected field name")
			}
			x = &CExpr{Kind: CSel, Name: t.text, Args: []*CExpr{x}}
		case ps.accept("("):
			args := []*CExpr{x}
			for !ps.isOp(")") {
				args = append(args, ps.iff())
				if !ps.accept(",") {
					break
				}
			}
			ps.expect(")")
			x = &CExpr{Kind: CCall, Args: args}
		case ps.accept("["):
			var lo, hi *CExpr
			if !ps.isOp(":") {
				lo = ps.iff()
			}
			if ps.accept(":") {
				if !ps.isOp("]") {
					hi = ps.iff()
				}
				ps.expect("]")
				x = &CExpr{Kind: CSlice, Args: []*CExpr{x, lo, hi}}
			} else {
				ps.expect("]")
				x = &CExpr{Kind: CIndex, Args: []*CExpr{x, lo}}
			}
		default:
			return x
		}
	}
}

func (ps *cparser) primary() *CExpr {
	t := ps.next()
	switch t.kind {
	case "int":
		return &CExpr{Kind: CInt, Lit: strings.ReplaceAll(t.text, "_", "")}
	case "str":
		return &CExpr{Kind: CStr, Lit: t.text}
	case "char":
		return &CExpr{Kind: CChar, Lit: t.text}
	case "ident":
		switch t.text {
		case "forall", "exists":
			var vars []QVar
			for {
				n := ps.next()
				if n.kind != "ident" {
					ps.fail("expected quantified variable name")
				}
				// type: tokens up to "," or "::" at depth 0
				var ty []string
				depth := 0
				for {
					pk := ps.peek()
					if pk.kind == "eof" {
						ps.fail("unterminated quantifier")
					}
					if depth == 0 && pk.kind == "op" && (pk.text == "," || pk.text == "::") {
						break
					}
					if pk.kind == "op" && (pk.text == "[" || pk.text == "(") {
						depth++
					}
					if pk.kind == "op" && (pk.text == "]" || pk.text == ")") {
						depth--
					}
					ty = append(ty, pk.text)
					ps.p++
				}
				vars = append(vars, QVar{Name: n.text, Type: strings.Join(ty, "")})
				if ps.accept(",") {
					continue
				}
				ps.expect("::")
				break
			}
			// names listed without a type take the type of the next one that has it
			for i := len(vars) - 2; i >= 0; i-- {
				if vars[i].Type == "" {
					vars[i].Type = vars[i+1].Type
				}
			}
			body := ps.iff()
			return &CExpr{Kind: CQuant, Op: t.text, Vars: vars, Args: []*CExpr{body}}
		case "old":
			if ps.isOp("(") {
				ps.p++
				e := ps.iff()
				ps.expect(")")
				return &CExpr{Kind: COld, Args: []*CExpr{e}}
			}
		}
		return &CExpr{Kind: CIdent, Name: t.text}
	case "op":
		if t.text == "(" {
			e := ps.iff()
			ps.expect(")")
			return e
		}
	}
	ps.fail("unexpected token " + t.text)
	return nil
}
