package main

import (
	"fmt"
	"go/ast"
	"go/token"
	"go/types"
	"strings"
)

// Lock discipline (S4, `guarded(Cnn) lock : v1, v2` in a contract file).
//
// The state of a guard lock is ghost state: held = 0 (not held), 1 (read lock), 2 (write lock); sections counts
// the acquisitions made so far. Lock/RLock/Unlock/RUnlock on the lock variable update it; every read of a guarded
// package variable carries the obligation held >= 1 and every direct write (assignment, map store, delete) the
// obligation held == 2. A function of the lock's package is entered with the lock free unless its contract
// says `requires locked(lock)`, and must return with the lock in the state it was entered in.
// Sequential semantics: this gives the discipline, not an interference proof.

type guardInfo struct {
	enforced bool
	pkgPath string
	lock    *types.Var
	name    string
	vars    map[*types.Var]bool
}

func (eng *Engine) buildGuards() {
	eng.guardOf = map[*types.Var]*guardInfo{}
	eng.lockVars = map[*types.Var]*guardInfo{}
	for path, pc := range eng.prog.Contracts {
		pk := eng.prog.Pkgs[path]
		if pk == nil || pk.Types == nil {
			continue
		}
		for _, g := range pc.Guards {
			lv, _ := pk.Types.Scope().Lookup(g.Lock).(*types.Var)
			if lv == nil {
				continue
			}
			gi := &guardInfo{enforced: g.Enforced, pkgPath: path, lock: lv, name: g.Lock, vars: map[*types.Var]bool{}}
			for _, n := range g.Vars {
				if v, ok := pk.Types.Scope().Lookup(n).(*types.Var); ok && g.Enforced {
					gi.vars[v] = true
					eng.guardOf[v] = gi
				}
			}
			eng.lockVars[lv] = gi
		}
	}
}

func (gi *guardInfo) heldKey() heapKey { return heapKey{"X", "held:" + gi.pkgPath + "." + gi.name} }
func (gi *guardInfo) sectKey() heapKey { return heapKey{"X", "sections:" + gi.pkgPath + "." + gi.name} }

func (fc *FnCtx) guardsActive() bool {
	if fc.eng.guardOf == nil {
		fc.eng.buildGuards()
	}
	return len(fc.eng.lockVars) > 0
}

// guardEntry: entry assumptions for the locks of this function's package.
func (fc *FnCtx) guardEntry(st *State) {
	if !fc.guardsActive() {
		return
	}
	for _, gi := range fc.eng.lockVars {
		if gi.pkgPath != fc.pkg.PkgPath || !gi.enforced {
			continue
		}
		held := fc.get(st, gi.heldKey(), SInt, nil)
		fc.assume(st, boolT(fmt.Sprintf("(and (<= 0 %s) (<= %s 2))", held.S, held.S)))
		fc.get(st, gi.sectKey(), SInt, nil)
		needsLock := false
		for _, r := range fc.contract.Requires {
			if strings.Contains(r.Src, "locked(") {
				needsLock = true
			}
		}
		if !needsLock {
			fc.assume(st, boolT(fmt.Sprintf("(= %s 0)", held.S)))
		}
	}
}

// guardReturn: the lock is back in the state the function was entered in.
func (fc *FnCtx) guardReturn(st *State, ord int, pos token.Pos) {
	if !fc.guardsActive() {
		return
	}
	for _, gi := range fc.eng.lockVars {
		if gi.pkgPath != fc.pkg.PkgPath || !gi.enforced {
			continue
		}
		if _, ok := st.vars[gi.heldKey()]; !ok {
			continue
		}
		held := fc.get(st, gi.heldKey(), SInt, nil)
		old := fc.get(fc.entry, gi.heldKey(), SInt, nil)
		fc.assert(st, fmt.Sprintf("lock-balanced@return#%d/%s", ord, gi.name), "lock", boolT(fmt.Sprintf("(= %s %s)", held.S, old.S)), pos, "the lock "+gi.name+" is released on this path exactly if it was acquired")
	}
}

// lockOp handles Lock/RLock/Unlock/RUnlock on a guard lock. Returns true if e was one.
func (fc *FnCtx) lockOp(st *State, e *ast.CallExpr, fn *types.Func) bool {
	if !fc.guardsActive() || fn.Pkg() == nil || fn.Pkg().Path() != "sync" {
		return false
	}
	sel, ok := ast.Unparen(e.Fun).(*ast.SelectorExpr)
	if !ok {
		return false
	}
	var obj types.Object
	switch x := ast.Unparen(sel.X).(type) {
	case *ast.Ident:
		obj = fc.info().Uses[x]
	case *ast.SelectorExpr:
		obj = fc.info().Uses[x.Sel]
	}
	lv, _ := obj.(*types.Var)
	gi := fc.eng.lockVars[lv]
	if gi == nil || !gi.enforced {
		return false
	}
	held := fc.get(st, gi.heldKey(), SInt, nil)
	fc.safeOrd["lockop"]++
	n := fc.safeOrd["lockop"]
	switch fn.Name() {
	case "Lock", "RLock":
		fc.assert(st, fmt.Sprintf("lock-free-before-acquire#%d/%s", n, gi.name), "lock", boolT(fmt.Sprintf("(= %s 0)", held.S)), e.Pos(), gi.name+"."+fn.Name()+"() with the lock already held would deadlock")
		v := int64(2)
		if fn.Name() == "RLock" {
			v = 1
		}
		fc.set(st, gi.heldKey(), intLit(v))
		sec := fc.get(st, gi.sectKey(), SInt, nil)
		fc.set(st, gi.sectKey(), Term{S: fmt.Sprintf("(+ %s 1)", sec.S), Sort: SInt})
	case "Unlock":
		fc.assert(st, fmt.Sprintf("lock-held-before-release#%d/%s", n, gi.name), "lock", boolT(fmt.Sprintf("(= %s 2)", held.S)), e.Pos(), gi.name+".Unlock() needs the write lock held")
		fc.set(st, gi.heldKey(), intLit(0))
	case "RUnlock":
		fc.assert(st, fmt.Sprintf("lock-held-before-release#%d/%s", n, gi.name), "lock", boolT(fmt.Sprintf("(= %s 1)", held.S)), e.Pos(), gi.name+".RUnlock() needs the read lock held")
		fc.set(st, gi.heldKey(), intLit(0))
	default:
		return false
	}
	return true
}

// guardAccess emits the obligation for a read (write=false) or direct write of a guarded package variable.
func (fc *FnCtx) guardAccess(st *State, v *types.Var, write bool, pos token.Pos) {
	if fc.inContract > 0 || fc.eng.guardOf == nil && !fc.guardsActive() {
		return
	}
	gi := fc.eng.guardOf[v]
	if gi == nil {
		return
	}
	held := fc.get(st, gi.heldKey(), SInt, nil)
	fc.safeOrd["guard:"+v.Name()]++
	n := fc.safeOrd["guard:"+v.Name()]
	if write {
		fc.assert(st, fmt.Sprintf("lock-held-write#%d/%s", n, v.Name()), "lock", boolT(fmt.Sprintf("(= %s 2)", held.S)), pos, v.Name()+" is written only with "+gi.name+" write-locked")
	} else {
		fc.assert(st, fmt.Sprintf("lock-held-read#%d/%s", n, v.Name()), "lock", boolT(fmt.Sprintf("(>= %s 1)", held.S)), pos, v.Name()+" is read only with "+gi.name+" held")
	}
}

// guardedIdent: the package variable an expression names directly, if it is guarded.
func (fc *FnCtx) guardedIdent(e ast.Expr) *types.Var {
	if fc.eng.guardOf == nil {
		return nil
	}
	var obj types.Object
	switch x := ast.Unparen(e).(type) {
	case *ast.Ident:
		obj = fc.info().Uses[x]
	case *ast.SelectorExpr:
		if _, isField := fc.info().Selections[x]; !isField {
			obj = fc.info().Uses[x.Sel]
		}
	}
	v, _ := obj.(*types.Var)
	if v != nil && fc.eng.guardOf[v] != nil {
		return v
	}
	return nil
}
