package main

import (
	"fmt"
	"regexp"
	"sort"
	"go/constant"
	"go/token"
	"go/types"
	"strconv"
	"strings"

	"golang.org/x/tools/go/packages"
)

// cenv is the environment in which a contract expression is translated.
type cenv struct {
	fc       *FnCtx
	pkgPath  string
	pkg      *packages.Package
	names    map[string]Term // parameters / results / extra bindings
	st       *State          // current state (heap reads)
	old      *State          // state for old(...)
	scopePos token.Pos       // position for resolving locals of the function under verification (NoPos: none)
	fnObj    *types.Func
	qscopes  []map[string]Term
	loopN    int // the loop a loop clause belongs to: `idx`, `visited`, `cur` without a number mean that loop's
}

func (ce *cenv) fail(format string, args ...any) {
	panic(bindErr(fmt.Sprintf(format, args...)))
}

// bindErr: a contract expression could not be bound to the code (unbound contract, not a violation).
type bindErr string

func (ce *cenv) boolExpr(e *CExpr) Term {
	t := ce.expr(e)
	if t.Sort != SBool {
		ce.fail("expression %s is not boolean (sort %s)", e, t.Sort)
	}
	return t
}

func (ce *cenv) resolveType(s string) types.Type {
	s = strings.TrimSpace(s)
	switch s {
	case "int":
		return types.Typ[types.Int]
	case "string":
		return types.Typ[types.String]
	case "bool":
		return types.Typ[types.Bool]
	case "byte":
		return types.Typ[types.Uint8]
	case "rune":
		return types.Typ[types.Rune]
	case "[]byte":
		return types.NewSlice(types.Typ[types.Uint8])
	case "any":
		return types.Universe.Lookup("any").Type()
	case "error":
		return types.Universe.Lookup("error").Type()
	}
	if ce.pkg != nil && ce.pkg.Types != nil {
		tv, err := types.Eval(ce.fc.prog.Fset, ce.pkg.Types, token.NoPos, s)
		if err == nil && tv.IsType() {
			return tv.Type
		}
		// qualified name whose package is imported under that name
		if i := strings.LastIndex(s, "."); i > 0 {
			prefix := strings.TrimLeft(s[:i], "*[]")
			lead := s[:len(s[:i])-len(prefix)]
			for _, imp := range ce.pkg.Imports {
				if imp.Name == prefix && imp.Types != nil {
					if obj := imp.Types.Scope().Lookup(s[i+1:]); obj != nil {
						var t types.Type = obj.Type()
						for j := len(lead) - 1; j >= 0; j-- {
							switch lead[j] {
							case '*':
								t = types.NewPointer(t)
							case ']':
								t = types.NewSlice(t)
								j--
							}
						}
						return t
					}
				}
			}
		}
	}
	ce.fail("cannot resolve type %q in %s", s, ce.pkgPath)
	return nil
}

func (ce *cenv) lookupQ(name string) (Term, bool) {
	for i := len(ce.qscopes) - 1; i >= 0; i-- {
		if t, ok := ce.qscopes[i][name]; ok {
			return t, true
		}
	}
	return Term{}, false
}

func (fc *FnCtx) lookupGhostVar(pkgPath, name string) *GhostVar {
	if pc := fc.prog.Contracts[pkgPath]; pc != nil {
		if gv, ok := pc.GhostVars[name]; ok {
			return gv
		}
	}
	return nil
}

func (fc *FnCtx) lookupGhostFunc(pkgPath, name string) *GhostFunc {
	if pc := fc.prog.Contracts[pkgPath]; pc != nil {
		if g, ok := pc.Ghosts[name]; ok {
			return g
		}
	}
	return nil
}

func (ce *cenv) ghostVarTerm(gv *GhostVar, st *State) Term {
	k := heapKey{"X", gv.PkgPath + "." + gv.Name}
	sub := &cenv{fc: ce.fc, pkgPath: gv.PkgPath, pkg: ce.fc.prog.Pkgs[gv.PkgPath]}
	var t types.Type
	var so string
	if strings.HasPrefix(gv.Type, "set[") {
		kt := sub.resolveType(strings.TrimSuffix(strings.TrimPrefix(gv.Type, "set["), "]"))
		so = arraySort(sortOf(kt), SBool)
	} else {
		t = sub.resolveType(gv.Type)
		so = sortOf(t)
	}
	v := ce.fc.get(st, k, so, t)
	return v
}

func (ce *cenv) ident(name string) Term {
	if t, ok := ce.lookupQ(name); ok {
		return t
	}
	if t, ok := ce.names[name]; ok {
		return t
	}
	switch name {
	case "true":
		return tTrue
	case "false":
		return tFalse
	case "nil":
		return Term{S: "0", Sort: SInt, T: types.Typ[types.UntypedNil]}
	case "clock":
		// ghost clock: every time.Now() returns a value >= clock and advances it
		return ce.fc.get(ce.st, heapKey{"X", "clock"}, SInt, nil)
	}
	fc := ce.fc
	// ghost loop variables: visitedN (set of keys already iterated in map-range loop N), idxN, curN
	if ce.loopN > 0 && (name == "idx" || name == "visited" || name == "cur") {
		name = name + strconv.Itoa(ce.loopN)
	}
	if m := reLoopGhost.FindStringSubmatch(name); m != nil {
		n, _ := strconv.Atoi(m[2])
		var k any
		switch m[1] {
		case "visited":
			k = rangeVisKey{n}
		case "idx":
			k = rangeIdxKey{n}
		case "cur":
			k = rangeCurKey{n}
		}
		if v, ok := ce.st.vars[k]; ok {
			return v
		}
		ce.fail("loop ghost variable %s is not available here", name)
	}
	// locals of the function under verification
	if ce.scopePos.IsValid() && fc.pkg.Types != nil {
		if sc := fc.pkg.Types.Scope().Innermost(ce.scopePos); sc != nil {
			if _, obj := sc.LookupParent(name, ce.scopePos); obj != nil {
				if t, ok := ce.objTerm(obj); ok {
					return t
				}
			}
		}
	}
	if gv := fc.lookupGhostVar(ce.pkgPath, name); gv != nil {
		return ce.ghostVarTerm(gv, ce.st)
	}
	if ce.pkg != nil && ce.pkg.Types != nil {
		if obj := ce.pkg.Types.Scope().Lookup(name); obj != nil {
			if t, ok := ce.objTerm(obj); ok {
				return t
			}
		}
	}
	if g := fc.lookupGhostFunc(ce.pkgPath, name); g != nil && len(g.Params) == 0 {
		return ce.ghostCall(g, nil)
	}
	ce.fail("unresolved identifier %q (package %s)", name, ce.pkgPath)
	return Term{}
}

func (ce *cenv) objTerm(obj types.Object) (Term, bool) {
	fc := ce.fc
	switch o := obj.(type) {
	case *types.Var:
		if o.Pkg() != nil && o.Parent() == o.Pkg().Scope() {
			v := fc.get(ce.st, o, sortOf(o.Type()), o.Type())
			v.T = o.Type()
			return v, true
		}
		if v, ok := ce.st.vars[o]; ok {
			v.T = o.Type()
			return v, true
		}
		// declared but unassigned on this path
		v := fc.lookupVar(ce.st, o)
		v.T = o.Type()
		return v, true
	case *types.Const:
		return fc.constTerm(o.Val(), o.Type())
	case *types.Nil:
		return Term{S: "0", Sort: SInt, T: types.Typ[types.UntypedNil]}, true
	case *types.Func:
		return fc.funcValue(o), true
	}
	return Term{}, false
}

// findPackage resolves a package qualifier. Several imported packages can share a name (internal/util and
// internal/runtime/util): the one that declares `member` (Go object, ghost function or ghost variable) wins.
func (ce *cenv) findPackage(name string, member ...string) *packages.Package {
	if ce.pkg == nil {
		return nil
	}
	declares := func(p *packages.Package) bool {
		if len(member) == 0 || member[0] == "" {
			return true
		}
		if pc := ce.fc.prog.Contracts[p.PkgPath]; pc != nil {
			if _, ok := pc.Ghosts[member[0]]; ok {
				return true
			}
			if _, ok := pc.GhostVars[member[0]]; ok {
				return true
			}
		}
		return p.Types != nil && p.Types.Scope().Lookup(member[0]) != nil
	}
	var first *packages.Package
	var paths []string
	for path := range ce.pkg.Imports {
		paths = append(paths, path)
	}
	sort.Strings(paths)
	for _, path := range paths {
		imp := ce.pkg.Imports[path]
		if imp.Name == name {
			if declares(imp) {
				return imp
			}
			if first == nil {
				first = imp
			}
		}
	}
	if first != nil {
		return first
	}
	// also allow any loaded module package by its short name (ghosts declared elsewhere)
	paths = paths[:0]
	for path, p := range ce.fc.prog.Pkgs {
		if p.Name == name && strings.HasPrefix(path, modRoot) {
			paths = append(paths, path)
		}
	}
	sort.Strings(paths)
	for _, path := range paths {
		if declares(ce.fc.prog.Pkgs[path]) {
			return ce.fc.prog.Pkgs[path]
		}
	}
	if len(paths) > 0 {
		return ce.fc.prog.Pkgs[paths[0]]
	}
	return nil
}

func (ce *cenv) expr(e *CExpr) Term {
	fc := ce.fc
	switch e.Kind {
	case CIdent:
		return ce.ident(e.Name)
	case CInt:
		n, err := strconv.ParseInt(e.Lit, 0, 64)
		if err != nil {
			ce.fail("bad integer %s", e.Lit)
		}
		return intLit(n)
	case CStr:
		s, err := strconv.Unquote(e.Lit)
		if err != nil {
			ce.fail("bad string %s", e.Lit)
		}
		return fc.strLit(s)
	case CChar:
		s, err := strconv.Unquote(e.Lit)
		if err != nil || len(s) == 0 {
			ce.fail("bad char %s", e.Lit)
		}
		r := []rune(s)[0]
		return intLit(int64(r))
	case CUnary:
		x := ce.expr(e.Args[0])
		if e.Op == "!" {
			return tNot(x)
		}
		return Term{S: "(- " + x.S + ")", Sort: SInt, T: x.T}
	case CBinary:
		switch e.Op {
		case "==>":
			l := ce.boolExpr(e.Args[0])
			if l.S == "false" {
				return tTrue // the consequent is not evaluated (it may name things that only exist when the antecedent holds)
			}
			return tImp(l, ce.boolExpr(e.Args[1]))
		case "<==>":
			return tEq(ce.boolExpr(e.Args[0]), ce.boolExpr(e.Args[1]))
		case "&&":
			l := ce.boolExpr(e.Args[0])
			if l.S == "false" {
				return tFalse // e.g. `nargs == 3 && arg2 == ...` at a call that passes two arguments
			}
			return tAnd(l, ce.boolExpr(e.Args[1]))
		case "||":
			l := ce.boolExpr(e.Args[0])
			if l.S == "true" {
				return tTrue
			}
			return tOr(l, ce.boolExpr(e.Args[1]))
		case "in":
			k := ce.expr(e.Args[0])
			m := ce.expr(e.Args[1])
			if m.T != nil {
				if mt, ok := m.T.Underlying().(*types.Map); ok {
					k = fc.convertTo(ce.st, k, mt.Key())
					_, ok := fc.mapRead(ce.st, m, mt, k)
					return ok
				}
			}
			if strings.HasPrefix(m.Sort, "(Array ") {
				return boolT(fmt.Sprintf("(select %s %s)", m.S, k.S))
			}
			ce.fail("'in' needs a map or set, got sort %s", m.Sort)
		}
		l := ce.expr(e.Args[0])
		r := ce.expr(e.Args[1])
		if (e.Op == "==" || e.Op == "!=") && l.Sort == SBool && r.Sort == SBool {
			if e.Op == "==" {
				return tEq(l, r)
			}
			return tNot(tEq(l, r))
		}
		saved := fc.safe
		fc.safe = false
		t := fc.binop(ce.st, e.Op, l, r, l.T, token.NoPos, "")
		fc.safe = saved
		return t
	case CCond:
		c := ce.boolExpr(e.Args[0])
		return tIte(c, ce.expr(e.Args[1]), ce.expr(e.Args[2]))
	case COld:
		if ce.old == nil {
			ce.fail("old() not available here")
		}
		sub := *ce
		sub.st = ce.old
		return sub.expr(e.Args[0])
	case CQuant:
		scope := map[string]Term{}
		var decls []string
		var guards []Term
		for _, v := range e.Vars {
			t := ce.resolveType(v.Type)
			n := fmt.Sprintf("q_%s_%d", v.Name, fc.nextQ())
			tm := Term{S: n, Sort: sortOf(t), T: t}
			scope[v.Name] = tm
			decls = append(decls, fmt.Sprintf("(%s %s)", n, tm.Sort))
			if tm.Sort == SStr && e.Op == "forall" {
				// every string has a non-negative length: guarding a universal statement with it would only let a
				// solver escape the statement through a string of negative length
				continue
			}
			for _, f := range fc.rangeFacts(tm, t) {
				if (strings.Contains(f, "9223372036854775807") || strings.Contains(f, "9223372036854775808") || strings.Contains(f, "18446744073709551615")) {
					// a quantified statement over int / int64 ranges over every integer: restricting it to the
					// 64-bit range would let a solver escape a universal (or lose the witness of an existential)
					// through an index beyond that range; slice lengths are not bounded in the model
					continue
				}
				guards = append(guards, boolT(f))
			}
		}
		ce.qscopes = append(ce.qscopes, scope)
		fc.qdepth++
		body := ce.boolExpr(e.Args[0])
		fc.qdepth--
		ce.qscopes = ce.qscopes[:len(ce.qscopes)-1]
		if e.Op == "forall" {
			return boolT(fmt.Sprintf("(forall (%s) %s)", strings.Join(decls, " "), tImp(tAnd(guards...), body).S))
		}
		return boolT(fmt.Sprintf("(exists (%s) %s)", strings.Join(decls, " "), tAnd(append(guards, body)...).S))
	case CSel:
		// package-qualified name?
		if e.Args[0].Kind == CIdent {
			if _, isQ := ce.lookupQ(e.Args[0].Name); !isQ {
				if _, isName := ce.names[e.Args[0].Name]; !isName && !ce.isLocal(e.Args[0].Name) {
					if p := ce.findPackage(e.Args[0].Name, e.Name); p != nil {
						sub := *ce
						sub.pkg = p
						sub.pkgPath = p.PkgPath
						sub.scopePos = token.NoPos
						sub.names = nil
						sub.qscopes = nil
						return sub.ident(e.Name)
					}
				}
			}
		}
		x := ce.expr(e.Args[0])
		return ce.field(x, e.Name)
	case CIndex:
		x := ce.expr(e.Args[0])
		i := ce.expr(e.Args[1])
		if x.T != nil {
			if mt, ok := x.T.Underlying().(*types.Map); ok {
				i = fc.convertTo(ce.st, i, mt.Key())
				v, _ := fc.mapRead(ce.st, x, mt, i)
				return v
			}
		}
		if strings.HasPrefix(x.Sort, "(Array ") {
			return Term{S: fmt.Sprintf("(select %s %s)", x.S, i.S), Sort: arrayElem(x.Sort)}
		}
		var et types.Type
		if x.T != nil {
			switch u := x.T.Underlying().(type) {
			case *types.Slice:
				et = u.Elem()
			case *types.Array:
				et = u.Elem()
			}
		}
		return fc.indexTerm(nil, x, i, et, token.NoPos, "")
	case CSlice:
		x := ce.expr(e.Args[0])
		var lo, hi Term
		if e.Args[1] != nil {
			lo = ce.expr(e.Args[1])
		}
		if e.Args[2] != nil {
			hi = ce.expr(e.Args[2])
		}
		return fc.sliceTerm(nil, x, lo, hi, x.T, token.NoPos, "")
	case CCall:
		return ce.call(e)
	}
	ce.fail("unsupported contract expression %s", e)
	return Term{}
}

func arrayElem(sort string) string {
	// (Array I E): find E by scanning after the index sort
	s := strings.TrimSuffix(strings.TrimPrefix(sort, "(Array "), ")")
	depth := 0
	for i, c := range s {
		switch c {
		case '(':
			depth++
		case ')':
			depth--
		case ' ':
			if depth == 0 {
				return s[i+1:]
			}
		}
	}
	return s
}

func (ce *cenv) isLocal(name string) bool {
	if !ce.scopePos.IsValid() {
		return false
	}
	if sc := ce.fc.pkg.Types.Scope().Innermost(ce.scopePos); sc != nil {
		if _, obj := sc.LookupParent(name, ce.scopePos); obj != nil {
			if _, isPkg := obj.(*types.PkgName); isPkg {
				return false
			}
			if obj.Parent() != nil && obj.Pkg() != nil && obj.Parent() == obj.Pkg().Scope() {
				return false
			}
			return true
		}
	}
	return false
}

func (ce *cenv) field(x Term, name string) Term {
	fc := ce.fc
	if x.T == nil {
		ce.fail("field %s of untyped term %s", name, x.S)
	}
	var pk *types.Package
	if ce.pkg != nil {
		pk = ce.pkg.Types
	}
	obj, index, _ := types.LookupFieldOrMethod(x.T, true, pk, name)
	if obj == nil {
		// unexported field of another package: search by name
		obj, index = lookupFieldAnyPkg(x.T, name)
	}
	f, ok := obj.(*types.Var)
	if !ok || f == nil {
		ce.fail("no field %s in %s", name, types.TypeString(x.T, nil))
	}
	saved := fc.safe
	fc.safe = false
	fc.inContract++
	ref, rt, ff := fc.selectPath(ce.st, x, x.T, index, token.NoPos, "")
	fc.inContract--
	fc.safe = saved
	v := fc.readField(ce.st, ref, rt, ff)
	if fc.qdepth == 0 && !ce.st.dead() {
		fc.allocated(ce.st, v) // references stored in the heap predate the allocation mark of that state
	}
	return v
}

func lookupFieldAnyPkg(t types.Type, name string) (types.Object, []int) {
	st, ok := derefType(t).Underlying().(*types.Struct)
	if !ok {
		return nil, nil
	}
	for i := 0; i < st.NumFields(); i++ {
		if st.Field(i).Name() == name {
			return st.Field(i), []int{i}
		}
	}
	for i := 0; i < st.NumFields(); i++ {
		if st.Field(i).Embedded() {
			if o, idx := lookupFieldAnyPkg(st.Field(i).Type(), name); o != nil {
				return o, append([]int{i}, idx...)
			}
		}
	}
	return nil, nil
}

func (ce *cenv) ghostCall(g *GhostFunc, args []Term) Term {
	fc := ce.fc
	gpkg := fc.prog.Pkgs[g.PkgPath]
	sub := &cenv{fc: fc, pkgPath: g.PkgPath, pkg: gpkg}
	var sorts []string
	var ptypes []types.Type
	for _, p := range g.Params {
		pt := sub.resolveType(p.Type)
		ptypes = append(ptypes, pt)
		sorts = append(sorts, sortOf(pt))
	}
	var rt types.Type
	var rs string
	if strings.HasPrefix(g.Result, "set[") {
		kt := sub.resolveType(strings.TrimSuffix(strings.TrimPrefix(g.Result, "set["), "]"))
		rs = arraySort(sortOf(kt), SBool)
	} else {
		rt = sub.resolveType(g.Result)
		rs = sortOf(rt)
	}
	if len(args) != len(g.Params) {
		ce.fail("ghost func %s expects %d args, got %d", g.Name, len(g.Params), len(args))
	}
	if g.Body != nil {
		// spec function: expanded in place (macro), so side definitions see the actual arguments
		bodyEnv := &cenv{fc: fc, pkgPath: g.PkgPath, pkg: gpkg, names: map[string]Term{}, st: ce.st, old: ce.old, qscopes: ce.qscopes}
		for i, p := range g.Params {
			a := args[i]
			if a.Sort != sorts[i] {
				a = fc.convertTo(ce.st, a, ptypes[i])
				if a.Sort != sorts[i] {
					ce.fail("spec func %s arg %d: sort %s, want %s", g.Name, i, a.Sort, sorts[i])
				}
			}
			a.T = ptypes[i]
			bodyEnv.names[p.Name] = a
		}
		fc.specDepth++
		if fc.specDepth > 8 {
			ce.fail("spec func %s: expansion too deep (recursive?)", g.Name)
		}
		t := bodyEnv.expr(g.Body)
		fc.specDepth--
		if t.Sort != rs {
			ce.fail("spec func %s: body sort %s, declared %s", g.Name, t.Sort, rs)
		}
		if rt != nil {
			t.T = rt
		}
		return t
	}
	pkname := g.PkgPath[strings.LastIndex(g.PkgPath, "/")+1:]
	name := "gf_" + smtIdent(pkname) + "_" + g.Name
	fc.declareFun(name, sorts, rs)
	var as []string
	for i, a := range args {
		if a.Sort != sorts[i] {
			// allow interface boxing
			a = fc.convertTo(ce.st, a, ptypes[i])
			if a.Sort != sorts[i] {
				ce.fail("ghost func %s arg %d: sort %s, want %s", g.Name, i, a.Sort, sorts[i])
			}
		}
		as = append(as, a.S)
	}
	if len(as) == 0 {
		return Term{S: name, Sort: rs, T: rt}
	}
	t := Term{S: fmt.Sprintf("(%s %s)", name, strings.Join(as, " ")), Sort: rs, T: rt}
	return t
}

func (ce *cenv) call(e *CExpr) Term {
	fc := ce.fc
	callee := e.Args[0]
	var args []Term
	evalArgs := func() {
		for _, a := range e.Args[1:] {
			args = append(args, ce.expr(a))
		}
	}
	if callee.Kind == CIdent {
		switch callee.Name {
		case "len":
			evalArgs()
			return fc.lenOf(ce.st, args[0], args[0].T)
		case "bytes":
			evalArgs()
			return fc.conversion(ce.st, types.NewSlice(types.Typ[types.Uint8]), args[0], token.NoPos)
		case "str":
			evalArgs()
			return fc.conversion(ce.st, types.Typ[types.String], args[0], token.NoPos)
		case "int", "int64", "int32", "uint8", "byte":
			evalArgs()
			t := ce.resolveTypeName(callee.Name)
			if args[0].T == nil {
				args[0].T = types.Typ[types.Int]
			}
			return fc.conversion(ce.st, t, args[0], token.NoPos)
		case "isnil":
			evalArgs()
			if isSliceSort(args[0].Sort) {
				return boolT(fmt.Sprintf("(%s %s)", fc.sliceNilFn(args[0].Sort), args[0].S))
			}
			return boolT(fmt.Sprintf("(= %s 0)", args[0].S))
		case "allocated":
			// allocated(p): the reference p denotes storage that exists in this state (it is not one a later
			// allocation will return). True of every pointer a program can hold; stated in invariants over
			// containers so that a freshly allocated object is known to differ from everything stored before.
			evalArgs()
			cur := fc.get(ce.st, allocKey, SInt, nil)
			return boolT(fmt.Sprintf("(<= %s %s)", args[0].S, cur.S))
		case "as":
			// as(x, "T"): the value of interface x viewed as concrete type T (x.(T) without the check)
			x := ce.expr(e.Args[1])
			ts, _ := strconv.Unquote(e.Args[2].Lit)
			t := ce.resolveType(ts)
			if isInterface(t) {
				return Term{S: x.S, Sort: SInt, T: t}
			}
			return fc.unbox(x, t)
		case "typeis":
			// typeis(x, "T"): dynamic type tag test by type string
			x := ce.expr(e.Args[1])
			ts, _ := strconv.Unquote(e.Args[2].Lit)
			t := ce.resolveType(ts)
			return fc.hasTag(x, t)
		case "locked", "wlocked", "sections":
			// locked(l) / wlocked(l): the guard lock l (a package variable named in a `guarded` clause) is held / write-held;
			// sections(l): how many times it has been acquired so far
			var gi *guardInfo
			if len(e.Args) == 2 && e.Args[1].Kind == CIdent && ce.pkg != nil && ce.pkg.Types != nil {
				if lv, ok := ce.pkg.Types.Scope().Lookup(e.Args[1].Name).(*types.Var); ok {
					gi = fc.eng.lockVars[lv]
				}
			}
			if gi == nil {
				ce.fail("%s() needs the name of a lock declared in a guarded clause that is in force in this check", callee.Name)
			}
			if callee.Name == "sections" {
				t := fc.get(ce.st, gi.sectKey(), SInt, nil)
				t.T = types.Typ[types.Int]
				return t
			}
			held := fc.get(ce.st, gi.heldKey(), SInt, nil)
			if callee.Name == "wlocked" {
				return boolT(fmt.Sprintf("(= %s 2)", held.S))
			}
			return boolT(fmt.Sprintf("(>= %s 1)", held.S))
		case "mapeq":
			// mapeq(m, old(m)) style: compares dom and val of one map object in two states is done via old(); here: same state
			ce.fail("mapeq not supported")
		}
		if g := fc.lookupGhostFunc(ce.pkgPath, callee.Name); g != nil {
			evalArgs()
			return ce.ghostCall(g, args)
		}
		// a Go function of the package declared pure / modelled
		if ce.pkg != nil && ce.pkg.Types != nil {
			if fn, ok := ce.pkg.Types.Scope().Lookup(callee.Name).(*types.Func); ok {
				evalArgs()
				return ce.goCall(fn, Term{}, false, args)
			}
		}
		ce.fail("unknown function %s in contract", callee.Name)
	}
	if callee.Kind == CSel && callee.Args[0].Kind == CIdent {
		pn := callee.Args[0].Name
		if _, isQ := ce.lookupQ(pn); !isQ {
			if _, isName := ce.names[pn]; !isName && !ce.isLocal(pn) {
				if p := ce.findPackage(pn, callee.Name); p != nil {
					if g := fc.lookupGhostFunc(p.PkgPath, callee.Name); g != nil {
						evalArgs()
						return ce.ghostCall(g, args)
					}
					if fn, ok := p.Types.Scope().Lookup(callee.Name).(*types.Func); ok {
						evalArgs()
						return ce.goCall(fn, Term{}, false, args)
					}
					ce.fail("unknown function %s.%s in contract", pn, callee.Name)
				}
			}
		}
	}
	if callee.Kind == CSel {
		// method call on a value
		recv := ce.expr(callee.Args[0])
		if recv.T != nil {
			obj, _, _ := types.LookupFieldOrMethod(recv.T, true, ce.pkg.Types, callee.Name)
			if fn, ok := obj.(*types.Func); ok {
				evalArgs()
				return ce.goCall(fn, recv, true, args)
			}
		}
	}
	ce.fail("unsupported call %s in contract", e)
	return Term{}
}

func (ce *cenv) resolveTypeName(n string) types.Type {
	return types.Universe.Lookup(n).Type()
}

// goCall: a real Go function used inside a contract must be modelled or declared pure.
func (ce *cenv) goCall(fn *types.Func, recv Term, hasRecv bool, args []Term) Term {
	fc := ce.fc
	full := fn.FullName()
	sig := fn.Type().(*types.Signature)
	for i := range args {
		if i < sig.Params().Len() {
			args[i] = fc.convertTo(ce.st, args[i], sig.Params().At(i).Type())
		}
	}
	if res, ok := fc.modelCall(ce.st, nil, fn, full, recv, args); ok {
		return res[0]
	}
	if fc.prog.IsPure(full) {
		return fc.pureCall(fn, sig, full, recv, hasRecv, args)[0]
	}
	ce.fail("Go function %s used in a contract is neither modelled nor declared pure", full)
	return Term{}
}

// havocTarget havocs the location named by an assigns-clause expression.
func (ce *cenv) havocTarget(a *CExpr) {
	fc := ce.fc
	st := ce.st
	switch a.Kind {
	case CIdent:
		if a.Name == "heap" {
			for _, k := range fc.stateKeys(st) {
				if k == allocKey {
					continue
				}
				old := st.vars[k]
				nv := fc.freshSort(fc.keyName(k), old.Sort)
				nv.T = old.T
				st.vars[k] = nv
				if hk, ok := k.(heapKey); ok {
					fc.wlog = append(fc.wlog, wrec{hk, "*"})
				}
			}
			return
		}
		if gv := fc.lookupGhostVar(ce.pkgPath, a.Name); gv != nil {
			cur := ce.ghostVarTerm(gv, st)
			nv := fc.freshSort(gv.Name, cur.Sort)
			nv.T = cur.T
			for _, f := range fc.rangeFacts(nv, cur.T) {
				fc.assumeGlobal(boolT(f))
			}
			fc.set(st, heapKey{"X", gv.PkgPath + "." + gv.Name}, nv)
			return
		}
		if ce.pkg != nil {
			if v, ok := ce.pkg.Types.Scope().Lookup(a.Name).(*types.Var); ok {
				fc.get(st, v, sortOf(v.Type()), v.Type())
				fc.set(st, v, fc.fresh(v.Name(), v.Type()))
				return
			}
		}
		// a parameter naming a map or pointer: havoc the object it refers to
		if t, ok := ce.names[a.Name]; ok && t.T != nil {
			ce.havocObject(t)
			return
		}
		ce.fail("assigns: cannot resolve %s", a.Name)
	case CSel:
		if a.Args[0].Kind == CIdent {
			if p := ce.findPackage(a.Args[0].Name, a.Name); p != nil && !ce.isLocal(a.Args[0].Name) {
				if _, isName := ce.names[a.Args[0].Name]; !isName {
					sub := *ce
					sub.pkg = p
					sub.pkgPath = p.PkgPath
					sub.havocTarget(&CExpr{Kind: CIdent, Name: a.Name})
					return
				}
			}
		}
		x := ce.expr(a.Args[0])
		if a.Name == "*" {
			ce.havocObject(x)
			return
		}
		obj, index := lookupFieldAnyPkg(x.T, a.Name)
		f, ok := obj.(*types.Var)
		if !ok {
			ce.fail("assigns: no field %s", a.Name)
		}
		saved := fc.safe
		fc.safe = false
		fc.inContract++
		ref, rt, ff := fc.selectPath(st, x, x.T, index, token.NoPos, "")
		fc.inContract--
		fc.safe = saved
		_ = f
		nv := fc.fresh(ff.Name(), ff.Type())
		fc.writeField(st, ref, rt, ff, nv)
	default:
		ce.fail("assigns: unsupported target %s", a)
	}
}

// havocObject havocs every field of the struct x points to, or the contents of the map x.
func (ce *cenv) havocObject(x Term) {
	fc := ce.fc
	st := ce.st
	switch u := derefType(x.T).Underlying().(type) {
	case *types.Struct:
		for i := 0; i < u.NumFields(); i++ {
			f := u.Field(i)
			fc.writeField(st, x, x.T, f, fc.fresh(f.Name(), f.Type()))
		}
	case *types.Map:
		dk, vk, lk, ks, vs := fc.mapKeys(u)
		dom := fc.get(st, dk, arraySort(SInt, arraySort(ks, SBool)), nil)
		va := fc.get(st, vk, arraySort(SInt, arraySort(ks, vs)), nil)
		la := fc.get(st, lk, arraySort(SInt, SInt), nil)
		nd := fc.freshSort(fc.keyName(dk), dom.Sort)
		nv := fc.freshSort(fc.keyName(vk), va.Sort)
		nl := fc.freshSort(fc.keyName(lk), la.Sort)
		fd := fc.freshSort("hdom", arraySort(ks, SBool))
		fv := fc.freshSort("hval", arraySort(ks, vs))
		fl := fc.freshSort("hlen", SInt)
		fc.assumeGlobal(boolT(fmt.Sprintf("(>= %s 0)", fl.S)))
		fc.assume(st, boolT(fmt.Sprintf("(= %s (store %s %s %s))", nd.S, dom.S, x.S, fd.S)))
		fc.assume(st, boolT(fmt.Sprintf("(= %s (store %s %s %s))", nv.S, va.S, x.S, fv.S)))
		fc.assume(st, boolT(fmt.Sprintf("(= %s (store %s %s %s))", nl.S, la.S, x.S, fl.S)))
		fc.set(st, dk, nd)
		fc.set(st, vk, nv)
		fc.set(st, lk, nl)
	default:
		ce.fail("assigns: cannot havoc object of type %s", types.TypeString(x.T, nil))
	}
}

var _ = constant.MakeBool

var reLoopGhost = regexp.MustCompile(`^(visited|idx|cur)(\d+)$`)
