package main

import (
	"go/types"
)

// globalInits applies frame rule F3: a package-level variable that no non-test function of the module
// writes (and whose address is never taken) still has the value of its initialiser.
func (fc *FnCtx) globalInits(st *State) {
	fr := fc.eng.frame
	if fr == nil {
		return
	}
	done := map[*types.Var]bool{}
	for round := 0; round < 3; round++ {
		progress := false
		keys := append([]any(nil), fc.keyOrder...)
		for _, k := range keys {
			v, ok := k.(*types.Var)
			if !ok || done[v] {
				continue
			}
			done[v] = true
			gi, has := fr.inits[v]
			if !has || fr.HasWriters(v) {
				continue
			}
			progress = true
			cur := fc.get(st, v, sortOf(v.Type()), v.Type())
			savedPkg, savedSafe := fc.pkg, fc.safe
			fc.pkg = gi.pkg
			fc.safe = false
			var val Term
			if gi.expr != nil {
				val = fc.valueFor(st, gi.expr, v.Type())
			} else {
				val = fc.zeroValue(v.Type())
				if val.S == "" {
					val = fc.zeroStruct(st, v.Type())
				}
			}
			fc.pkg, fc.safe = savedPkg, savedSafe
			if val.Sort == cur.Sort {
				fc.assume(st, tEq(cur, val))
			}
			fc.assumptions["frame F3: package variables with no writer in non-test module code keep their initialiser value (checked against the writer index each run)"] = true
		}
		if !progress {
			break
		}
	}
}
