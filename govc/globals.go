package main

import (
	"go/ast"
	"go/types"
)

// globalInits applies frame rule F3: a package-level variable that no non-test function of the module
// writes (and whose address is never taken) still has the value of its initialiser.
//
// Only value-like variables are covered: the heap contents reachable from a struct / pointer / map valued
// global can be changed through field writes that are not writes of the variable, so nothing is assumed
// about them here (the variable's reference itself is a fixed constant in any case).
func (fc *FnCtx) globalInits(st *State) {
	fr := fc.eng.frame
	if fr == nil {
		return
	}
	done := map[*types.Var]bool{}
	for round := 0; round < 3; round++ {
		progress := false
		keys := append([]any(nil), fc.keyOrder...)
		for _, k := range keys {
			v, ok := k.(*types.Var)
			if !ok || done[v] {
				continue
			}
			done[v] = true
			gi, has := fr.inits[v]
			if !has || fr.HasWriters(v) {
				continue
			}
			if !f3Applicable(v.Type(), gi.expr) {
				continue
			}
			progress = true
			cur := fc.get(st, v, sortOf(v.Type()), v.Type())
			savedPkg, savedSafe := fc.pkg, fc.safe
			fc.pkg = gi.pkg
			fc.safe = false
			var val Term
			if gi.expr != nil {
				val = fc.valueFor(st, gi.expr, v.Type())
			} else {
				val = fc.zeroValue(v.Type())
			}
			fc.pkg, fc.safe = savedPkg, savedSafe
			if val.S != "" && val.Sort == cur.Sort {
				fc.assume(st, tEq(cur, val))
			}
			fc.assumptions["frame F3: package variables with no writer in non-test module code keep their initialiser value (checked against the writer index each run)"] = true
		}
		if !progress {
			break
		}
	}
}

// f3Applicable: the initial value can be stated without asserting anything about mutable heap objects.
func f3Applicable(t types.Type, init ast.Expr) bool {
	switch u := t.Underlying().(type) {
	case *types.Basic:
		return true
	case *types.Slice:
		_, basic := u.Elem().Underlying().(*types.Basic)
		return basic
	case *types.Array:
		_, basic := u.Elem().Underlying().(*types.Basic)
		return basic
	case *types.Pointer, *types.Interface, *types.Signature:
		// only through a call whose contract speaks about the result (e.g. non-nil); never a literal object
		if init == nil {
			return true // nil
		}
		_, isCall := ast.Unparen(init).(*ast.CallExpr)
		return isCall
	}
	return false
}
