package main

import (
	"time"
	"bytes"
	"encoding/json"
	"fmt"
	"os"
	"os/exec"
	"path/filepath"
	"strconv"
	"strings"
	"text/template"
)

type ReplayFile struct {
	Property   string            `json:"property"`
	Obligation string            `json:"obligation"`
	Class      string            `json:"class"`
	Function   string            `json:"function"`
	PkgDir     string            `json:"pkg_dir,omitempty"`
	Pos        string            `json:"pos"`
	Clause     string            `json:"clause"`
	Answer     string            `json:"answer"`
	Solver     string            `json:"solver"`
	SolverOut  string            `json:"solver_output"`
	Model      map[string]string `json:"model,omitempty"`
	Inputs     map[string]string `json:"inputs,omitempty"`
	TestSource string            `json:"test_source,omitempty"`
	TestOutput string            `json:"test_output,omitempty"`
	Reproduced bool              `json:"reproduced"`
	Note       string            `json:"note,omitempty"`
}

func (r *Run) writeReplay(o *Obligation) string {
	dir := filepath.Join(r.EvDir, "replays", r.Prop)
	os.MkdirAll(dir, 0o755)
	path := filepath.Join(dir, smtIdent(o.Name)+".json")
	rf := &ReplayFile{Property: r.Prop, Obligation: o.Name, Class: o.Class, Function: o.Func, Pos: o.Pos, Clause: o.Text, Answer: o.Answer, Solver: o.Backend, SolverOut: o.Output, Model: o.Model}
	if o.fc != nil {
		rf.PkgDir = strings.TrimPrefix(o.fc.pkg.PkgPath, modRoot)
	}
	r.tryReplay(o, rf)
	o.Reproduced = rf.Reproduced
	if !rf.Reproduced && rf.Note == "" {
		rf.Note = "no concrete failing input: the obligation discharged on the unchanged tree and fails on this one; solver output attached"
	}
	b, _ := json.MarshalIndent(rf, "", " ")
	os.WriteFile(path, append(b, '\n'), 0o644)
	return path
}

// watchTerms: what to read back from a model for parameter p.
func watchFor(name string, t Term) []Term {
	switch {
	case t.Sort == SInt || t.Sort == SBool:
		return []Term{t}
	case t.Sort == SStr:
		out := []Term{intT(fmt.Sprintf("(strlen %s)", t.S))}
		for i := 0; i < 24; i++ {
			out = append(out, intT(fmt.Sprintf("(strat %s %d)", t.S, i)))
		}
		return out
	case isSliceSort(t.Sort) && sliceElemSort(t.Sort) == SInt:
		out := []Term{intT(fmt.Sprintf("(slen %s)", t.S))}
		for i := 0; i < 24; i++ {
			out = append(out, intT(fmt.Sprintf("(select (sarr %s) %d)", t.S, i)))
		}
		return out
	}
	return nil
}

func smtInt(s string) (int64, bool) {
	s = strings.TrimSpace(s)
	neg := false
	if strings.HasPrefix(s, "(- ") {
		neg = true
		s = strings.TrimSuffix(strings.TrimPrefix(s, "(- "), ")")
	}
	n, err := strconv.ParseInt(strings.TrimSpace(s), 10, 64)
	if err != nil {
		return 0, false
	}
	if neg {
		n = -n
	}
	return n, true
}

// goLiteral renders the model value of parameter t as a Go literal.
func goLiteral(t Term, model map[string]string) (string, bool) {
	switch {
	case t.Sort == SBool:
		v, ok := model[t.S]
		return v, ok && (v == "true" || v == "false")
	case t.Sort == SInt:
		n, ok := smtInt(model[t.S])
		if !ok {
			return "", false
		}
		return strconv.FormatInt(n, 10), true
	case t.Sort == SStr || (isSliceSort(t.Sort) && sliceElemSort(t.Sort) == SInt):
		lenT, at := fmt.Sprintf("(slen %s)", t.S), "(select (sarr %s) %d)"
		if t.Sort == SStr {
			lenT, at = fmt.Sprintf("(strlen %s)", t.S), "(strat %s %d)"
		}
		n, ok := smtInt(model[lenT])
		if !ok || n < 0 || n > 1<<16 {
			return "", false
		}
		bs := make([]byte, n)
		for i := int64(0); i < n && i < 24; i++ {
			if v, ok := smtInt(model[fmt.Sprintf(at, t.S, i)]); ok {
				bs[i] = byte(v)
			}
		}
		for i := int64(24); i < n; i++ {
			bs[i] = byte('a' + i%26)
		}
		if t.Sort == SStr {
			return strconv.Quote(string(bs)), true
		}
		return fmt.Sprintf("[]byte(%s)", strconv.Quote(string(bs))), true
	}
	return "", false
}

func (r *Run) tryReplay(o *Obligation, rf *ReplayFile) {
	if o.Class == "bounded" {
		// the stand-in's own run is the replay: its source and output were recorded when it ran
		rf.PkgDir, rf.TestSource, rf.TestOutput, rf.Reproduced = o.Pos, o.Goal, o.Output, true
		return
	}
	if o.fc == nil {
		r.tryTableReplay(o, rf)
		return
	}
	// <func>.<label>.tmpl (label = any substring of the obligation name) is preferred over <func>.tmpl
	tmplPath := filepath.Join(r.Out, "replay_templates", o.Func+".tmpl")
	if cands, _ := filepath.Glob(filepath.Join(r.Out, "replay_templates", o.Func+".*.tmpl")); len(cands) > 0 {
		best := 0
		for _, c := range cands {
			mid := strings.TrimSuffix(strings.TrimPrefix(filepath.Base(c), o.Func+"."), ".tmpl")
			if mid != "" && strings.Contains(o.Name, mid) && len(mid) > best {
				tmplPath, best = c, len(mid) // the most specific label wins
			}
		}
	}
	rawTemplate := false
	tb, err := os.ReadFile(tmplPath)
	if err != nil {
		// prop.<Cnn>.tmpl: a fixed end-to-end battery for the property, run when the function has no template of its own
		tb, err = os.ReadFile(filepath.Join(r.Out, "replay_templates", "prop."+r.Prop+".tmpl"))
	}
	if err != nil {
		// or the property's bounded stand-in: real inputs on the real code
		if cands, _ := filepath.Glob(filepath.Join(r.Out, "replay_templates", "bounded."+r.Prop+"-*.tmpl")); len(cands) > 0 {
			tb, err = os.ReadFile(cands[0])
			rawTemplate = true // a bounded stand-in is Go source, not a text/template
		}
	}
	if err != nil {
		rf.Note = "no replay template for " + o.Func + "; solver output attached"
		return
	}
	// `//govc:pkgdir <dir>`: run the replay as a test of another package (one that has the needed harness)
	for _, line := range strings.Split(string(tb), "\n") {
		if strings.HasPrefix(line, "//govc:pkgdir ") {
			rf.PkgDir = strings.TrimSpace(strings.TrimPrefix(line, "//govc:pkgdir "))
		}
	}
	// a template that needs no model values (it replays a fixed history) can run even without a model
	data := map[string]any{"Obligation": o.Name, "Class": o.Class, "Package": o.fc.pkg.Name}
	inputs := map[string]string{}
	for name, t := range o.fc.paramInit {
		if o.Model == nil {
			break
		}
		lit, ok := goLiteral(t, o.Model)
		if !ok {
			continue
		}
		data[name] = lit
		inputs[name] = lit
	}
	rf.Inputs = inputs
	var buf bytes.Buffer
	if rawTemplate {
		buf.Write(tb)
	} else {
		tm, err := template.New("replay").Option("missingkey=error").Parse(string(tb))
		if err != nil {
			rf.Note = "replay template does not parse: " + err.Error()
			return
		}
		if err := tm.Execute(&buf, data); err != nil {
			rf.Note = "the model does not determine every input the replay template needs: " + err.Error()
			return
		}
	}
	rf.TestSource = buf.String()
	out, failed := runReplayTest(r.Repo, rf.PkgDir, rf.TestSource)
	rf.TestOutput = out
	rf.Reproduced = failed
	if !failed {
		rf.Note = "replay test did not fail on the real code with the model's input"
	}
}

// replayTimeout: the go test time limit of a replay or stand-in; the thorough tier's stand-ins enumerate more.
func replayTimeout() string {
	if os.Getenv("GOVC_TIER") == "thorough" {
		return "1500s"
	}
	return "300s"
}

// runReplayTest injects src as an in-package test by overlay (nothing is written to the repo) and runs it.
func runReplayTest(repo, pkgDir, src string) (string, bool) {
	scratch, err := os.MkdirTemp("", "govc-replay-")
	if err != nil {
		return err.Error(), false
	}
	defer os.RemoveAll(scratch)
	msg, err := GenerateMessages(repo, scratch)
	if err != nil {
		return err.Error(), false
	}
	testFile := filepath.Join(scratch, "zz_govc_replay_test.go")
	if err := os.WriteFile(testFile, []byte(src), 0o644); err != nil {
		return err.Error(), false
	}
	ov := map[string]any{"Replace": map[string]string{
		filepath.Join(repo, "internal/i18n/messages.go"):      msg,
		filepath.Join(repo, pkgDir, "zz_govc_replay_test.go"): testFile,
	}}
	ob, _ := json.Marshal(ov)
	ovPath := filepath.Join(scratch, "overlay.json")
	os.WriteFile(ovPath, ob, 0o644)
	cmd := exec.Command("bash", "-c", fmt.Sprintf("ulimit -v 8000000; cd %q && go test -overlay %q -vet=off -count=1 -v -timeout %s -run 'TestGovcReplay' ./%s/ 2>&1", repo, ovPath, replayTimeout(), pkgDir))
	cmd.Env = goEnv()
	b, _ := cmd.CombinedOutput()
	out := string(b)
	failed := strings.Contains(out, "--- FAIL: TestGovcReplay")
	if len(out) > 4000 {
		out = out[:2000] + "\n...[truncated]...\n" + out[len(out)-2000:]
	}
	return out, failed
}

func cmdReplay(args []string) int {
	if len(args) < 1 {
		fmt.Fprintln(os.Stderr, "usage: govc replay <file>")
		return 2
	}
	b, err := os.ReadFile(args[0])
	if err != nil {
		fmt.Fprintln(os.Stderr, err)
		return 2
	}
	var rf ReplayFile
	if err := json.Unmarshal(b, &rf); err != nil {
		fmt.Fprintln(os.Stderr, err)
		return 2
	}
	fmt.Printf("property=%s obligation=%s answer=%s reproduced=%v\nclause: %s\ninputs: %v\n", rf.Property, rf.Obligation, rf.Answer, rf.Reproduced, rf.Clause, rf.Inputs)
	if rf.TestSource == "" {
		fmt.Println("no replay test recorded for this obligation (no-failing-input-found): " + rf.Note)
		return 1
	}
	out, failed := runReplayTest("/repo", rf.PkgDir, rf.TestSource)
	fmt.Println(out)
	if failed {
		fmt.Println("replay: violation reproduced on the real code")
		return 1
	}
	fmt.Println("replay: test passed (violation not reproduced on this tree)")
	return 0
}

// tryTableReplay: a table obligation named table/<family>[<arg>] can be replayed by the template
// replay_templates/table.<family with / as _>.tmpl, which receives the bracketed argument as {{.Arg}}.
func (r *Run) tryTableReplay(o *Obligation, rf *ReplayFile) {
	name := strings.TrimPrefix(o.Name, "table/")
	i, j := strings.Index(name, "["), strings.LastIndex(name, "]")
	if i < 0 || j < i {
		return
	}
	family, arg := name[:i], name[i+1:j]
	tb, err := os.ReadFile(filepath.Join(r.Out, "replay_templates", "table."+strings.ReplaceAll(family, "/", "_")+".tmpl"))
	if err != nil {
		// no template of its own: the property's bounded corpus (the real code run on generated inputs) is the replay
		tb, err = os.ReadFile(filepath.Join(r.Out, "replay_templates", "bounded."+r.Prop+"-corpus.tmpl"))
		if err != nil {
			tb, err = os.ReadFile(filepath.Join(r.Out, "replay_templates", "bounded."+r.Prop+"-battery.tmpl"))
		}
		if err != nil {
			return
		}
	}
	for _, line := range strings.Split(string(tb), "\n") {
		if strings.HasPrefix(line, "//govc:pkgdir ") {
			rf.PkgDir = strings.TrimSpace(strings.TrimPrefix(line, "//govc:pkgdir "))
		}
	}
	tm, err := template.New("replay").Option("missingkey=error").Parse(string(tb))
	if err != nil {
		rf.Note = "replay template does not parse: " + err.Error()
		return
	}
	var buf bytes.Buffer
	if err := tm.Execute(&buf, map[string]any{"Obligation": o.Name, "Arg": arg, "ArgQuoted": strconv.Quote(arg), "Detail": o.Output}); err != nil {
		rf.Note = err.Error()
		return
	}
	rf.Inputs = map[string]string{"arg": arg}
	rf.TestSource = buf.String()
	out, failed := runReplayTest(r.Repo, rf.PkgDir, rf.TestSource)
	rf.TestOutput = out
	rf.Reproduced = failed
	if !failed {
		rf.Note = "replay test did not fail on the real code"
	}
}

// boundedGoTest runs a bounded stand-in: an in-package Go test (template under replay_templates/bounded.<name>.tmpl,
// injected by overlay) that enumerates a stated finite set of inputs of a function the contracts cannot reach. Its
// last "BOUNDED" line reports how many cases it ran. The result is kept apart from the obligations discharged.
func (r *Run) boundedGoTest(name, what, bound string) {
	os.Setenv("GOVC_TIER", r.Tier) // the stand-ins read their tier from the environment
	tb, err := os.ReadFile(filepath.Join(r.Out, "replay_templates", "bounded."+name+".tmpl"))
	o := &Obligation{Name: "bounded/" + name, Class: "bounded", Func: "bounded", Text: what + " [bound: " + bound + "]", Backend: "go test"}
	if err != nil {
		o.Answer, o.Output = "error", err.Error()
		r.Extra = append(r.Extra, o)
		return
	}
	pkgDir := ""
	for _, line := range strings.Split(string(tb), "\n") {
		if strings.HasPrefix(line, "//govc:pkgdir ") {
			pkgDir = strings.TrimSpace(strings.TrimPrefix(line, "//govc:pkgdir "))
		}
	}
	start := time.Now()
	out, failed := runReplayTest(r.Repo, pkgDir, string(tb))
	o.Ms = time.Since(start).Milliseconds()
	o.Pos, o.Goal, o.Output = pkgDir, string(tb), out
	cases := ""
	for _, line := range strings.Split(out, "\n") {
		if i := strings.Index(line, "BOUNDED "); i >= 0 {
			cases = strings.TrimSpace(line[i+8:])
		}
	}
	timedOut := strings.Contains(out, "test timed out")
	crashed := !timedOut && (strings.Contains(out, "\npanic: ") || strings.Contains(out, "fatal error: "))
	switch {
	case failed || crashed:
		o.Answer = "sat"
	case cases == "" || !strings.Contains(out, "ok "):
		o.Answer = "error" // the stand-in did not run to completion: nothing can be said
	default:
		o.Answer = "unsat"
	}
	r.Bounded = append(r.Bounded, map[string]any{"name": name, "what": what, "bound": bound, "result": cases, "passed": o.Answer == "unsat", "wall_ms": o.Ms, "label": "bounded: an enumeration of the stated finite set, not a proof; not counted in discharged"})
	r.Extra = append(r.Extra, o)
}
