package main

import (
	"fmt"
	"go/ast"
	"go/token"
	"go/types"
	"os"
	"strings"

	"golang.org/x/tools/go/types/typeutil"
)

// calleeName is the name of the callee as written at the call site ("pkg.F", "x.M", "f").
func calleeText(e *ast.CallExpr) string {
	switch f := ast.Unparen(e.Fun).(type) {
	case *ast.Ident:
		return f.Name
	case *ast.SelectorExpr:
		// x.f, x.y.f, ... are written out; anything else in receiver position is "_"
		var path []string
		cur := ast.Unparen(f.X)
		for {
			switch x := cur.(type) {
			case *ast.Ident:
				path = append([]string{x.Name}, path...)
				return strings.Join(path, ".") + "." + f.Sel.Name
			case *ast.SelectorExpr:
				path = append([]string{x.Sel.Name}, path...)
				cur = ast.Unparen(x.X)
				continue
			}
			break
		}
		return "_." + f.Sel.Name
	case *ast.IndexExpr:
		return calleeText(&ast.CallExpr{Fun: f.X})
	}
	return "_"
}

func (fc *FnCtx) call(st *State, e *ast.CallExpr) []Term {
	info := fc.info()
	// conversion
	if tv, ok := info.Types[e.Fun]; ok && tv.IsType() {
		x := fc.expr(st, e.Args[0])
		if x.T == nil {
			x.T = fc.typeOf(e.Args[0])
		}
		return []Term{fc.conversion(st, tv.Type, x, e.Pos())}
	}
	callee := typeutil.Callee(info, e)
	if b, ok := callee.(*types.Builtin); ok {
		return fc.builtin(st, e, b.Name())
	}
	ctext := calleeText(e)
	fc.callOrd[ctext]++
	ord := fc.callOrd[ctext]

	// receiver and arguments, in order
	var recv Term
	hasRecv := false
	sig, _ := fc.typeOf(e.Fun).Underlying().(*types.Signature)
	var fn *types.Func
	if f, ok := callee.(*types.Func); ok {
		fn = f
		fc.lockOp(st, e, fn)
	}
	if sel, ok := ast.Unparen(e.Fun).(*ast.SelectorExpr); ok {
		if s, ok := info.Selections[sel]; ok && s.Kind() == types.MethodVal {
			recv = fc.expr(st, sel.X)
			if recv.T == nil {
				recv.T = fc.typeOf(sel.X)
			}
			// implicit embedded path
			if len(s.Index()) > 1 {
				ref, rt, f := fc.selectPath(st, recv, s.Recv(), s.Index()[:len(s.Index())-1], e.Pos(), ctext)
				recv = fc.readField(st, ref, rt, f)
			}
			hasRecv = true
		} else if s != nil && s.Kind() == types.FieldVal {
			// call of a func-typed field
			fc.expr(st, sel)
		}
	} else if _, isIdent := ast.Unparen(e.Fun).(*ast.Ident); !isIdent {
		if _, isLit := ast.Unparen(e.Fun).(*ast.FuncLit); !isLit {
			fc.expr(st, e.Fun)
		}
	}
	var args []Term
	var ptrArgs []Term
	// &local handed to a decoder that does not keep the pointer (json/xml decoding, Scan): the local is
	// overwritten by this call only, not by every later call
	nonRet := fn != nil && nonRetainingCallee(fn)
	var savedDecoded []types.Object
	if nonRet {
		fc.noRetain++
		savedDecoded, fc.decoded = fc.decoded, nil
	}
	for i, a := range e.Args {
		var pt types.Type
		if sig != nil {
			np := sig.Params().Len()
			switch {
			case sig.Variadic() && i >= np-1 && !e.Ellipsis.IsValid():
				pt = sig.Params().At(np - 1).Type().(*types.Slice).Elem()
			case i < np:
				pt = sig.Params().At(i).Type()
			}
		}
		var v Term
		if len(e.Args) == 1 && sig != nil && sig.Params().Len() > 1 {
			// f(g()) with multi-value g
			if ce, ok := ast.Unparen(a).(*ast.CallExpr); ok {
				args = fc.call(st, ce)
				break
			}
		}
		v = fc.valueFor(st, a, pt)
		args = append(args, v)
		// a pointer to a struct handed to code outside the module may be filled in through it
		// (json/sql decoding by reflection): remember it so the call havocs the pointed-to object
		if at := fc.typeOf(a); at != nil && fn != nil && !inModule(fn.Pkg()) {
			if p, ok := at.Underlying().(*types.Pointer); ok {
				if _, isStruct := p.Elem().Underlying().(*types.Struct); isStruct && !isTimeType(p.Elem()) {
					pv := v
					pv.T = at
					ptrArgs = append(ptrArgs, pv)
				}
			}
		}
	}
	var decoded []types.Object
	if nonRet {
		fc.noRetain--
		decoded, fc.decoded = fc.decoded, savedDecoded
	}
	savedPtrArgs := fc.ptrArgs
	fc.ptrArgs = ptrArgs
	defer func() { fc.ptrArgs = savedPtrArgs }()

	// anchored clauses before the call
	savedAnchorArgs := fc.anchorArgs
	fc.anchorArgs = args
	fc.runAnchors(st, "call", ctext, ord, e.Pos(), nil)
	fc.anchorArgs = savedAnchorArgs

	var results []Term
	switch {
	case fn != nil:
		results = fc.callFunc(st, e, fn, sig, recv, hasRecv, args, ctext, ord)
	default:
		// local closure with a known literal: inline; else unknown dynamic call
		if id, ok := ast.Unparen(e.Fun).(*ast.Ident); ok {
			if obj := info.Uses[id]; obj != nil {
				if lit, ok := fc.localFuncs[obj]; ok && fc.inlineDepth < 3 {
					results = fc.inlineLit(st, lit, args)
					break
				}
			}
		}
		if lit, ok := ast.Unparen(e.Fun).(*ast.FuncLit); ok && fc.inlineDepth < 3 {
			results = fc.inlineLit(st, lit, args)
			break
		}
		results = fc.unknownCall(st, e, nil, sig, ctext)
	}
	for _, r := range results {
		fc.ownResult(st, r)
	}
	for _, obj := range decoded {
		if _, ok := st.vars[obj]; ok && !fc.escaped[obj] {
			st.vars[obj] = fc.fresh(obj.Name(), obj.Type())
		}
	}
	savedAnchorArgs = fc.anchorArgs
	fc.anchorArgs = args
	fc.runAnchors(st, "aftercall", ctext, ord, e.Pos(), results)
	fc.anchorArgs = savedAnchorArgs
	return results
}

func (fc *FnCtx) resultTerms(sig *types.Signature, hint string) []Term {
	var out []Term
	if sig == nil {
		return nil
	}
	for i := 0; i < sig.Results().Len(); i++ {
		r := sig.Results().At(i)
		out = append(out, fc.fresh(fmt.Sprintf("%s_r%d", hint, i), r.Type()))
	}
	return out
}

func (fc *FnCtx) callFunc(st *State, e *ast.CallExpr, fn *types.Func, sig *types.Signature, recv Term, hasRecv bool, args []Term, ctext string, ord int) []Term {
	full := fn.FullName()
	if o := fn.Origin(); o != nil {
		full = o.FullName()
	}
	if res, ok := fc.modelCall(st, e, fn, full, recv, args); ok {
		return res
	}
	c := fc.prog.ContractFor(full, fc.contract.PkgPath)
	// `opt foreign=ignore`: a callee in another package whose contract was written for other properties only is
	// treated as an ordinary unknown call here (its effects come from the frame analysis of its body): neither its
	// preconditions are demanded nor its postconditions assumed. Sound: an over-approximation of the call.
	if c != nil && fc.contract.Opts["foreign"] == "ignore" && !c.Trusted && c.PkgPath != fc.contract.PkgPath && !propListed(c.Opts["props"], fc.eng.prop) {
		c = nil
	}
	if c != nil {
		return fc.contractCall(st, e, fn, sig, c, recv, hasRecv, args, ctext, ord)
	}
	if fc.prog.IsPure(full) {
		return fc.pureCall(fn, sig, full, recv, hasRecv, args)
	}
	return fc.unknownCall(st, e, fn, sig, ctext)
}

func (fc *FnCtx) pureCall(fn *types.Func, sig *types.Signature, full string, recv Term, hasRecv bool, args []Term) []Term {
	fc.assumptions["pure: "+full+" is a deterministic function of its arguments with no heap effect"] = true
	var as []Term
	if hasRecv {
		as = append(as, recv)
	}
	as = append(as, args...)
	var sorts, strs []string
	for _, a := range as {
		sorts = append(sorts, a.Sort)
		strs = append(strs, a.S)
	}
	var out []Term
	for i := 0; i < sig.Results().Len(); i++ {
		rt := sig.Results().At(i).Type()
		name := fmt.Sprintf("pure_%s_%d_%s", smtIdent(full), i, smtIdent(strings.Join(sorts, "_")))
		fc.declareFun(name, sorts, sortOf(rt))
		var t Term
		if len(strs) == 0 {
			t = Term{S: name, Sort: sortOf(rt), T: rt}
		} else {
			t = Term{S: fmt.Sprintf("(%s %s)", name, strings.Join(strs, " ")), Sort: sortOf(rt), T: rt}
		}
		for _, f := range fc.rangeFacts(t, rt) {
			fc.assumeGlobal(boolT(f))
		}
		out = append(out, t)
	}
	return out
}

// unknownCall: results are fresh; heap and globals are havocked subject to the frame rules.
func (fc *FnCtx) unknownCall(st *State, e *ast.CallExpr, fn *types.Func, sig *types.Signature, ctext string) []Term {
	name := ctext
	if fn != nil {
		name = fn.FullName()
	}
	havocked := fc.havocForCall(st, fn, name)
	fc.havocGhosts(st, fn)
	if len(havocked) > 0 || fn == nil || fc.prog.FuncDecls[name] != nil {
		fc.note("call %s at %s: no contract; results fresh, havoc %d heap keys", name, fc.posStr(e.Pos()), len(havocked))
	}
	return fc.resultTerms(sig, "call_"+smtIdent(ctext))
}

// havocForCall havocs every heap key and global that the callee may write, per the frame rules. Returns the keys havocked.
func (fc *FnCtx) havocForCall(st *State, fn *types.Func, name string) []string {
	var out []string
	var willHavoc []any
	for _, k := range fc.stateKeys(st) {
		// kind 1 (fresh-only writers): the callee can change this field only on objects it allocates itself,
		// i.e. at references above the current allocation mark, about which nothing has been assumed: the
		// array is left as it is (allocation is monotone: our own later allocations are above the callee's)
		if k != allocKey && fc.eng.frame.WriteKind(fc, fn, k) == 2 {
			willHavoc = append(willHavoc, k)
		}
	}
	// package invariants that read a location this call may write: must hold before the call (the callee
	// relies on them) and hold again after it (every writer re-establishes them)
	if os.Getenv("GOVC_DEBUG_FRAME") != "" && fc.pass == 2 && fc.dry == 0 {
		var ks []string
		for _, k := range willHavoc {
			ks = append(ks, fc.keyName(k))
		}
		fmt.Fprintf(os.Stderr, "FRAME %s: call %s at %s havocs %v\n", fc.name, name, fc.posStr(fc.curPos), ks)
	}
	touched := fc.invsTouchedBy(willHavoc)
	// a module callee in another package that cannot reach this package (it does not import it, directly or indirectly)
	// neither relies on this package's invariants nor re-establishes them: the invariant is neither demanded
	// before the call nor assumed after it; what is known afterwards is the callee's contract
	if fn != nil && fn.Pkg() != nil && inModule(fn.Pkg()) && fn.Pkg().Path() != fc.contract.PkgPath && !fc.pkgReaches(fn.Pkg().Path(), fc.contract.PkgPath) {
		touched = nil
	}
	if len(touched) > 0 && fc.inlineDepth == 0 {
		fc.invCallOrd++
		for i, inv := range touched {
			fc.assertInv(st, inv, fmt.Sprintf("inv-global#%s@call#%d", clauseLabel(inv, i), fc.invCallOrd), fc.curPos, "invariant "+inv.Src+"   before call "+name)
		}
	}
	defer func() {
		for _, inv := range touched {
			fc.assume(st, fc.invTerm(st, inv))
		}
	}()
	for _, k := range willHavoc {
		old := st.vars[k]
		nv := fc.freshSort(fc.keyName(k), old.Sort)
		nv.T = old.T
		st.vars[k] = nv
		out = append(out, fc.keyName(k))
		if hk, ok := k.(heapKey); ok && hk.Kind == "F" {
			fc.preserveOwned(st, hk, old, nv)
			fc.wlog = append(fc.wlog, wrec{hk, "*"})
		}
		if hk, ok := k.(heapKey); ok && hk.Kind == "X" && hk.ID == "clock" {
			fc.assume(st, boolT(fmt.Sprintf("(>= %s %s)", nv.S, old.S))) // time does not go backwards
		}
	}
	// objects passed by pointer to code outside the module may be written through the pointer
	if fn != nil && !inModule(fn.Pkg()) {
		for _, p := range fc.ptrArgs {
			fc.havocPointee(st, p, 0)
		}
	}
	// allocation mark only grows
	cur := fc.get(st, allocKey, SInt, nil)
	na := fc.freshSort("alloc", SInt)
	fc.assume(st, boolT(fmt.Sprintf("(>= %s %s)", na.S, cur.S)))
	fc.set(st, allocKey, na)
	fc.structValsAllocated(st)
	// escaped locals may be written through their address
	for obj := range fc.escaped {
		if _, ok := st.vars[obj]; ok {
			st.vars[obj] = fc.fresh(obj.Name(), obj.Type())
		}
	}
	return out
}

// havocGhosts gives fresh values to the ghost variables the callee's contract (or its callees' contracts) assigns.
func (fc *FnCtx) havocGhosts(st *State, fn *types.Func) {
	if fn == nil || !inModule(fn.Pkg()) {
		return
	}
	for name := range fc.eng.frame.ghostWritesOf(fn, fc.contract.PkgPath) {
		k := heapKey{"X", name}
		old, ok := st.vars[k]
		if !ok {
			continue
		}
		var nv Term
		if old.T != nil && sortOf(old.T) == old.Sort {
			nv = fc.fresh(fc.keyName(k), old.T)
		} else {
			nv = fc.freshSort(fc.keyName(k), old.Sort)
		}
		nv.T = old.T
		st.vars[k] = nv
	}
}

func (fc *FnCtx) stateKeys(st *State) []any {
	var out []any
	for _, k := range fc.keyOrder {
		if _, ok := st.vars[k]; ok {
			out = append(out, k)
		}
	}
	return out
}

// contractCall: assert requires, havoc assigns, assume ensures.
func (fc *FnCtx) contractCall(st *State, e *ast.CallExpr, fn *types.Func, sig *types.Signature, c *FuncContract, recv Term, hasRecv bool, args []Term, ctext string, ord int) []Term {
	c.Used = true
	fc.interleave(st, fn)
	// f(a, b, c) for a variadic f: the contract speaks about the slice parameter, so the trailing arguments are
	// packed into a slice value whose elements are exactly those arguments
	if fs, ok := fn.Type().(*types.Signature); ok && fs.Variadic() && !e.Ellipsis.IsValid() && !c.Trusted {
		np := fs.Params().Len()
		if len(args) >= np-1 {
			st0 := fs.Params().At(np - 1).Type()
			rest := args[np-1:]
			v := fc.freshSort("varargs", sortOf(st0))
			v.T = st0
			fc.assume(st, boolT(fmt.Sprintf("(= (slen %s) %d)", v.S, len(rest))))
			for i, a := range rest {
				fc.assume(st, boolT(fmt.Sprintf("(= (select (sarr %s) %d) %s)", v.S, i, a.S)))
			}
			args = append(append([]Term{}, args[:np-1]...), v)
		}
	}
	if c.Trusted {
		fc.trustedUsed[c.Key] = true
	}
	env := fc.calleeEnv(fn, sig, c, recv, hasRecv, args)
	calleePkg := fc.prog.Pkgs[c.PkgPath]
	pre := st.clone()
	ce := &cenv{fc: fc, pkgPath: c.PkgPath, pkg: calleePkg, names: env, st: st, old: pre, scopePos: token.NoPos, fnObj: fn}
	for i, r := range c.Requires {
		t := ce.boolExpr(r.Expr)
		label := r.Label
		if label == "" {
			label = fmt.Sprintf("%d", i+1)
		}
		fc.assert(st, fmt.Sprintf("pre-call-%s#%d/%s", ctext, ord, label), "pre-call", t, e.Pos(), "requires "+r.Src)
	}
	// the caller package's own trusted additions to this contract (its ghost vocabulary, its parameter names)
	var xce *cenv
	var xenv map[string]Term
	if x := c.MergedFrom; x != nil {
		fc.trustedUsed[x.Key+" (additions written in "+x.PkgPath[strings.LastIndex(x.PkgPath, "/")+1:]+")"] = true
		xenv = fc.calleeEnv(fn, sig, x, recv, hasRecv, args)
		xce = &cenv{fc: fc, pkgPath: x.PkgPath, pkg: fc.prog.Pkgs[x.PkgPath], names: xenv, st: st, old: pre, scopePos: token.NoPos, fnObj: fn}
		for i, r := range x.Requires {
			label := r.Label
			if label == "" {
				label = fmt.Sprintf("x%d", i+1)
			}
			fc.assert(st, fmt.Sprintf("pre-call-%s#%d/%s", ctext, ord, label), "pre-call", xce.boolExpr(r.Expr), e.Pos(), "requires "+r.Src)
		}
	}
	// a callee under contract in this package assumes the package invariants on entry and re-establishes them
	// at every return (they are obligations of its own verification)
	var calleeInvs []*Clause
	if !c.Trusted && c.PkgPath == fc.contract.PkgPath && c.Opts["noinv"] != "true" && fc.inlineDepth == 0 {
		calleeInvs = fc.pkgInvs()
		if len(calleeInvs) > 0 {
			fc.invCallOrd++
			for i, inv := range calleeInvs {
				fc.assert(st, fmt.Sprintf("inv-global#%s@call#%d", clauseLabel(inv, i), fc.invCallOrd), "inv-global", fc.invTerm(st, inv), e.Pos(), "invariant "+inv.Src+"   before call "+ctext)
			}
		}
	}
	defer func() {
		for _, inv := range calleeInvs {
			fc.assume(st, fc.invTerm(st, inv))
		}
	}()
	// frame
	if c.HasAssigns {
		for _, a := range c.Assigns {
			ce.havocTarget(a)
		}
		cur := fc.get(st, allocKey, SInt, nil)
		na := fc.freshSort("alloc", SInt)
		fc.assume(st, boolT(fmt.Sprintf("(>= %s %s)", na.S, cur.S)))
		fc.set(st, allocKey, na)
	} else {
		fc.havocForCall(st, fn, fn.FullName())
	}
	fc.havocGhosts(st, fn)
	results := fc.resultTerms(sig, "r_"+smtIdent(ctext))
	names := c.ResultNames
	if names == nil {
		names = defaultResultNames(sig)
	}
	for i, r := range results {
		if i < len(names) && names[i] != "" && names[i] != "_" {
			env[names[i]] = r
		}
	}
	if len(results) > 0 {
		if _, ok := env["result"]; !ok {
			env["result"] = results[0]
		}
	}
	ce.st = st
	for _, en := range c.Ensures {
		t := ce.boolExpr(en.Expr)
		fc.assume(st, t)
	}
	if x := c.MergedFrom; x != nil {
		xnames := x.ResultNames
		if xnames == nil {
			xnames = defaultResultNames(sig)
		}
		for i, r := range results {
			if i < len(xnames) && xnames[i] != "" && xnames[i] != "_" {
				xenv[xnames[i]] = r
			}
		}
		if len(results) > 0 {
			if _, ok := xenv["result"]; !ok {
				xenv["result"] = results[0]
			}
		}
		xce.st = st
		for _, en := range x.Ensures {
			fc.assume(st, xce.boolExpr(en.Expr))
		}
	}
	return results
}

func defaultResultNames(sig *types.Signature) []string {
	var names []string
	n := sig.Results().Len()
	for i := 0; i < n; i++ {
		r := sig.Results().At(i)
		nm := r.Name()
		if nm == "" || nm == "_" {
			switch {
			case i == n-1 && types.TypeString(r.Type(), nil) == "error":
				nm = "err"
			case i == 0:
				nm = "result"
			default:
				nm = fmt.Sprintf("result%d", i)
			}
		}
		names = append(names, nm)
	}
	return names
}

func (fc *FnCtx) calleeEnv(fn *types.Func, sig *types.Signature, c *FuncContract, recv Term, hasRecv bool, args []Term) map[string]Term {
	env := map[string]Term{}
	fsig := fn.Type().(*types.Signature)
	if hasRecv {
		rn := "recv"
		if fsig.Recv() != nil && fsig.Recv().Name() != "" && fsig.Recv().Name() != "_" {
			rn = fsig.Recv().Name()
		}
		if recv.T == nil && fsig.Recv() != nil {
			recv.T = fsig.Recv().Type()
		}
		if fsig.Recv() != nil && !isInterface(fsig.Recv().Type()) {
			recv.T = fsig.Recv().Type()
		}
		env[rn] = recv
		env["recv"] = recv
	}
	var pnames []string
	if c.ParamNames != nil {
		pnames = c.ParamNames
	} else {
		for i := 0; i < fsig.Params().Len(); i++ {
			pnames = append(pnames, fsig.Params().At(i).Name())
		}
	}
	for i, a := range args {
		if i < len(pnames) && pnames[i] != "" && pnames[i] != "_" {
			if i < fsig.Params().Len() && !(fsig.Variadic() && i >= fsig.Params().Len()-1) {
				a.T = fsig.Params().At(i).Type()
			}
			env[pnames[i]] = a
		}
	}
	return env
}

// inlineLit symbolically executes a function literal body in place (non-recursive closures).
func (fc *FnCtx) inlineLit(st *State, lit *ast.FuncLit, args []Term) []Term {
	sig := fc.typeOf(lit).(*types.Signature)
	i := 0
	for _, fld := range lit.Type.Params.List {
		for _, nm := range fld.Names {
			if obj := fc.info().Defs[nm]; obj != nil && i < len(args) {
				st.vars[obj] = args[i]
			}
			i++
		}
	}
	fc.inlineDepth++
	saved := fc.inl
	in := &inlineCtx{sig: sig}
	fc.inl = in
	// named results
	if lit.Type.Results != nil {
		for _, fld := range lit.Type.Results.List {
			for _, nm := range fld.Names {
				if obj := fc.info().Defs[nm]; obj != nil {
					v := fc.zeroValue(obj.Type())
					if v.S == "" {
						v = fc.zeroStruct(st, obj.Type())
					}
					st.vars[obj] = v
					in.named = append(in.named, obj)
				}
			}
		}
	}
	savedLoops := fc.loops
	fc.loops = nil
	savedDefers := st.defers
	st.defers = nil
	fc.block(st, lit.Body.List)
	if !st.dead() {
		// fallthrough end of body
		fc.inlineReturn(st, nil, lit.Body.Rbrace)
	}
	fc.loops = savedLoops
	fc.inl = saved
	fc.inlineDepth--
	merged := fc.merge(in.exits)
	fc.become(st, merged)
	st.defers = savedDefers
	var out []Term
	for i := 0; i < sig.Results().Len(); i++ {
		k := inlResKey{in, i}
		if v, ok := st.vars[k]; ok {
			out = append(out, v)
			delete(st.vars, k)
		} else {
			out = append(out, fc.fresh("inl_r", sig.Results().At(i).Type()))
		}
	}
	return out
}

type inlineCtx struct {
	sig   *types.Signature
	exits []*State
	named []types.Object
}

type inlResKey struct {
	in *inlineCtx
	i  int
}

func (k inlResKey) String() string { return fmt.Sprintf("inlres%d", k.i) }

func (fc *FnCtx) inlineReturn(st *State, vals []Term, pos token.Pos) {
	in := fc.inl
	fc.runDefers(st)
	if vals == nil && len(in.named) > 0 {
		for _, o := range in.named {
			vals = append(vals, st.vars[o])
		}
	}
	ex := st.clone()
	for i, v := range vals {
		ex.vars[inlResKey{in, i}] = v
	}
	in.exits = append(in.exits, ex)
	st.live = tFalse
}

// ---- builtins ----

func (fc *FnCtx) builtin(st *State, e *ast.CallExpr, name string) []Term {
	t := fc.typeOf(e)
	switch name {
	case "len", "cap":
		x := fc.expr(st, e.Args[0])
		return []Term{fc.lenOf(st, x, fc.typeOf(e.Args[0]))}
	case "append":
		s := fc.expr(st, e.Args[0])
		if !isSliceSort(s.Sort) {
			break
		}
		elemT := t.Underlying().(*types.Slice).Elem()
		if e.Ellipsis.IsValid() {
			o := fc.expr(st, e.Args[1])
			if o.Sort == SStr {
				o = fc.conversion(st, t, o, e.Pos())
			}
			return []Term{fc.appendSlice(st, s, o, t)}
		}
		cur := s
		for _, a := range e.Args[1:] {
			v := fc.valueFor(st, a, elemT)
			cur = fc.appendOne(st, cur, v, t)
		}
		cur.T = t
		return []Term{cur}
	case "make":
		switch u := t.Underlying().(type) {
		case *types.Map:
			for _, a := range e.Args[1:] {
				fc.expr(st, a)
			}
			return []Term{fc.newMap(st, t)}
		case *types.Slice:
			n := fc.expr(st, e.Args[1])
			if fc.safe {
				fc.safeAssert(st, "make", boolT(fmt.Sprintf("(>= %s 0)", n.S)), e.Pos(), exprText(fc.prog.Fset, e))
			}
			if len(e.Args) > 2 {
				c := fc.expr(st, e.Args[2])
				if fc.safe {
					fc.safeAssert(st, "make", boolT(fmt.Sprintf("(<= %s %s)", n.S, c.S)), e.Pos(), exprText(fc.prog.Fset, e))
				}
			}
			r := fc.fresh("make", t)
			fc.assume(st, boolT(fmt.Sprintf("(= (slen %s) %s)", r.S, n.S)))
			fc.assumeGlobal(boolT(fmt.Sprintf("(not (%s %s))", fc.sliceNilFn(r.Sort), r.S)))
			z := fc.zeroValue(u.Elem())
			if z.S != "" && !isSliceSort(z.Sort) {
				fc.assumeGlobal(boolT(fmt.Sprintf("(forall ((qi Int)) (! (= (select (sarr %s) qi) %s) :pattern ((select (sarr %s) qi))))", r.S, z.S, r.S)))
			}
			return []Term{r}
		case *types.Chan:
			for _, a := range e.Args[1:] {
				fc.expr(st, a)
			}
			r := fc.alloc(st, "chan", t)
			return []Term{r}
		}
	case "new":
		pt := t.Underlying().(*types.Pointer)
		if isStructVal(pt.Elem()) {
			r := fc.zeroStruct(st, pt.Elem())
			r.T = t
			return []Term{r}
		}
		r := fc.alloc(st, "new", t)
		return []Term{r}
	case "delete":
		if gv := fc.guardedIdent(e.Args[0]); gv != nil {
			fc.guardAccess(st, gv, true, e.Pos())
		}
		m := fc.expr(st, e.Args[0])
		mt := fc.typeOf(e.Args[0]).Underlying().(*types.Map)
		k := fc.valueFor(st, e.Args[1], mt.Key())
		fc.mapDelete(st, m, mt, k)
		return nil
	case "panic":
		for _, a := range e.Args {
			fc.expr(st, a)
		}
		fc.onPanic(st, e.Pos())
		return nil
	case "copy":
		fc.expr(st, e.Args[1])
		if id, ok := ast.Unparen(e.Args[0]).(*ast.Ident); ok {
			if obj := fc.info().Uses[id]; obj != nil {
				old := fc.lookupVar(st, obj)
				nv := fc.fresh(id.Name, obj.Type())
				fc.assume(st, boolT(fmt.Sprintf("(= (slen %s) (slen %s))", nv.S, old.S)))
				st.vars[obj] = nv
			}
		} else {
			fc.expr(st, e.Args[0])
			fc.note("copy into non-variable at %s not modelled", fc.posStr(e.Pos()))
		}
		return []Term{fc.fresh("copied", types.Typ[types.Int])}
	case "min", "max":
		cur := fc.expr(st, e.Args[0])
		for _, a := range e.Args[1:] {
			o := fc.expr(st, a)
			if cur.Sort != SInt {
				return []Term{fc.fresh("minmax", t)}
			}
			if name == "min" {
				cur = tIte(boolT(fmt.Sprintf("(<= %s %s)", cur.S, o.S)), cur, o)
			} else {
				cur = tIte(boolT(fmt.Sprintf("(>= %s %s)", cur.S, o.S)), cur, o)
			}
		}
		cur.T = t
		return []Term{cur}
	case "close", "print", "println", "clear":
		for _, a := range e.Args {
			fc.expr(st, a)
		}
		if name == "close" {
			fc.ghostEvent(st, "close", e)
		}
		return nil
	case "recover":
		return []Term{fc.fresh("recovered", t)}
	}
	for _, a := range e.Args {
		if tv, ok := fc.info().Types[a]; ok && tv.IsType() {
			continue
		}
		fc.expr(st, a)
	}
	fc.note("builtin %s at %s not modelled", name, fc.posStr(e.Pos()))
	if t == nil || types.Identical(t, types.Typ[types.Invalid]) {
		return nil
	}
	if tup, ok := t.(*types.Tuple); ok && tup.Len() == 0 {
		return nil
	}
	return []Term{fc.fresh("builtin_"+name, t)}
}

func (fc *FnCtx) ghostEvent(st *State, kind string, e *ast.CallExpr) {}

func (fc *FnCtx) lenOf(st *State, x Term, t types.Type) Term {
	switch {
	case x.Sort == SStr:
		return intT(fmt.Sprintf("(strlen %s)", x.S))
	case isSliceSort(x.Sort):
		return intT(fmt.Sprintf("(slen %s)", x.S))
	}
	if t != nil {
		if mt, ok := t.Underlying().(*types.Map); ok && st != nil {
			l := fc.mapLen(st, x, mt)
			fc.assumeGlobal(boolT(fmt.Sprintf("(>= %s 0)", l.S)))
			return l
		}
	}
	fc.declareFun("len_other", []string{x.Sort}, SInt)
	l := intT(fmt.Sprintf("(len_other %s)", x.S))
	fc.assumeGlobal(boolT(fmt.Sprintf("(>= %s 0)", l.S)))
	return l
}

func (fc *FnCtx) appendOne(st *State, s, v Term, t types.Type) Term {
	r := fc.freshSort("app", s.Sort)
	r.T = t
	fc.assumeGlobal(boolT(fmt.Sprintf("(= %s (mk-slice (store (sarr %s) (slen %s) %s) (+ (slen %s) 1)))", r.S, s.S, s.S, v.S, s.S)))
	fc.assumeGlobal(boolT(fmt.Sprintf("(not (%s %s))", fc.sliceNilFn(r.Sort), r.S)))
	return r
}

func (fc *FnCtx) appendSlice(st *State, s, o Term, t types.Type) Term {
	r := fc.freshSort("appn", s.Sort)
	r.T = t
	fc.assumeGlobal(boolT(fmt.Sprintf("(= (slen %s) (+ (slen %s) (slen %s)))", r.S, s.S, o.S)))
	fc.assumeGlobal(boolT(fmt.Sprintf("(forall ((qi Int)) (! (=> (and (<= 0 qi) (< qi (slen %s))) (= (select (sarr %s) qi) (select (sarr %s) qi))) :pattern ((select (sarr %s) qi))))", s.S, r.S, s.S, r.S)))
	fc.assumeGlobal(boolT(fmt.Sprintf("(forall ((qi Int)) (! (=> (and (<= 0 qi) (< qi (slen %s))) (= (select (sarr %s) (+ (slen %s) qi)) (select (sarr %s) qi))) :pattern ((select (sarr %s) qi))))", o.S, r.S, s.S, o.S, o.S)))
	return r
}

// ---- modelled library calls ----

func (fc *FnCtx) modelCall(st *State, e *ast.CallExpr, fn *types.Func, full string, recv Term, args []Term) ([]Term, bool) {
	b := func(f string, a ...any) Term { return boolT(fmt.Sprintf(f, a...)) }
	switch full {
	case "strings.HasPrefix", "strings.HasSuffix":
		n := "str_" + strings.ToLower(strings.TrimPrefix(full, "strings."))
		fc.declareFun(n, []string{SStr, SStr}, SBool)
		t := b("(%s %s %s)", n, args[0].S, args[1].S)
		fc.assumeGlobal(b("(=> %s (>= (strlen %s) (strlen %s)))", t.S, args[0].S, args[1].S))
		// a one-byte prefix/suffix pins the first/last byte
		if full == "strings.HasPrefix" {
			fc.assumeGlobal(b("(=> (and %s (>= (strlen %s) 1)) (= (strat %s 0) (strat %s 0)))", t.S, args[1].S, args[0].S, args[1].S))
		} else {
			fc.assumeGlobal(b("(=> (and %s (>= (strlen %s) 1)) (= (strat %s (- (strlen %s) 1)) (strat %s (- (strlen %s) 1))))", t.S, args[1].S, args[0].S, args[0].S, args[1].S, args[1].S))
		}
		fc.assumeGlobal(b("(=> (= (strlen %s) 0) %s)", args[1].S, t.S))
		return []Term{t}, true
	case "strings.IndexByte", "strings.IndexRune", "strings.IndexAny", "strings.LastIndexByte", "strings.LastIndexAny", "strings.Index", "strings.LastIndex":
		// -1, or a position inside the string (at most its length for the empty-substring case of Index)
		r := fc.fresh("index", types.Typ[types.Int])
		if full == "strings.Index" || full == "strings.LastIndex" {
			// a match of the substring lies inside the string
			fc.assumeGlobal(b("(and (>= %s (- 1)) (<= %s (strlen %s)) (=> (>= %s 0) (<= (+ %s (strlen %s)) (strlen %s))))", r.S, r.S, args[0].S, r.S, r.S, args[1].S, args[0].S))
		} else {
			fc.assumeGlobal(b("(and (>= %s (- 1)) (< %s (strlen %s)))", r.S, r.S, args[0].S))
		}
		return []Term{r}, true
	case "strings.TrimSpace", "strings.TrimLeft", "strings.TrimRight", "strings.Trim":
		// a substring of the argument: no longer than it
		fname := "str_" + strings.ToLower(fn.Name())
		sorts := make([]string, len(args))
		var as []string
		for i, a := range args {
			sorts[i] = a.Sort
			as = append(as, a.S)
		}
		fc.declareFun(fname, sorts, SStr)
		t := Term{S: fmt.Sprintf("(%s %s)", fname, strings.Join(as, " ")), Sort: SStr, T: types.Typ[types.String]}
		fc.assumeGlobal(b("(and (>= (strlen %s) 0) (<= (strlen %s) (strlen %s)))", t.S, t.S, args[0].S))
		return []Term{t}, true
	case "strings.Contains":
		fc.declareFun("str_contains", []string{SStr, SStr}, SBool)
		t := b("(str_contains %s %s)", args[0].S, args[1].S)
		fc.assumeGlobal(b("(=> %s (>= (strlen %s) (strlen %s)))", t.S, args[0].S, args[1].S))
		return []Term{t}, true
	case "strings.Split", "strings.SplitN":
		// at least one piece; at least two when the separator occurs (and the limit allows); at most n pieces
		fc.declareFun("str_contains", []string{SStr, SStr}, SBool)
		rt := fn.Type().(*types.Signature).Results().At(0).Type()
		r := fc.fresh("split", rt)
		fc.assumeGlobal(b("(>= (slen %s) 1)", r.S))
		limitOK := "true"
		if full == "strings.SplitN" {
			limitOK = fmt.Sprintf("(or (< %s 0) (>= %s 2))", args[2].S, args[2].S)
			fc.assumeGlobal(b("(=> (> %s 0) (<= (slen %s) %s))", args[2].S, r.S, args[2].S))
		}
		fc.assumeGlobal(b("(=> (and (str_contains %s %s) (>= (strlen %s) 1) %s) (>= (slen %s) 2))", args[0].S, args[1].S, args[1].S, limitOK, r.S))
		fc.assumeGlobal(b("(=> (and (not (str_contains %s %s)) (>= (strlen %s) 1)) (= (slen %s) 1))", args[0].S, args[1].S, args[1].S, r.S))
		fc.assumeGlobal(b("(not (%s %s))", fc.sliceNilFn(r.Sort), r.S))
		return []Term{r}, true
	case "bytes.Equal":
		if isSliceSort(args[0].Sort) {
			n := "bytes_equal"
			fc.declareFun(n, []string{args[0].Sort, args[1].Sort}, SBool)
			t := b("(%s %s %s)", n, args[0].S, args[1].S)
			fc.assumeGlobal(b("(=> %s (= (slen %s) (slen %s)))", t.S, args[0].S, args[1].S))
			return []Term{t}, true
		}
	case "strings.ToLower", "strings.ToUpper":
		n := "str_" + strings.ToLower(strings.TrimPrefix(full, "strings."))
		fc.declareFun(n, []string{SStr}, SStr)
		t := Term{S: fmt.Sprintf("(%s %s)", n, args[0].S), Sort: SStr, T: types.Typ[types.String]}
		fc.assumeGlobal(b("(>= (strlen %s) 0)", t.S))
		fc.assumeGlobal(b("(=> (= (strlen %s) 0) (= (strlen %s) 0))", args[0].S, t.S))
		// idempotent (checked exhaustively over all runes and invalid bytes when this was written; listed as trusted)
		fc.assumeGlobal(b("(= (%s %s) %s)", n, t.S, t.S))
		fc.assumptions["strings.ToLower / ToUpper are idempotent"] = true
		return []Term{t}, true
	case "time.Now":
		k := heapKey{"X", "clock"}
		cur := fc.get(st, k, SInt, nil)
		nv := fc.freshSort("now", SInt)
		fc.assume(st, b("(and (>= %s %s) (> %s 0))", nv.S, cur.S, nv.S)) // monotone, and after the zero Time
		fc.set(st, k, nv)
		return []Term{{S: nv.S, Sort: SInt, T: fn.Type().(*types.Signature).Results().At(0).Type()}}, true
	case "(time.Time).After":
		return []Term{b("(> %s %s)", recv.S, args[0].S)}, true
	case "(time.Time).Before":
		return []Term{b("(< %s %s)", recv.S, args[0].S)}, true
	case "(time.Time).Equal":
		return []Term{b("(= %s %s)", recv.S, args[0].S)}, true
	case "(time.Time).IsZero":
		return []Term{b("(= %s 0)", recv.S)}, true
	case "(time.Time).Add":
		return []Term{{S: fmt.Sprintf("(+ %s %s)", recv.S, args[0].S), Sort: SInt, T: recv.T}}, true
	case "(time.Time).Sub":
		return []Term{{S: fmt.Sprintf("(- %s %s)", recv.S, args[0].S), Sort: SInt, T: fn.Type().(*types.Signature).Results().At(0).Type()}}, true
	case "time.Since":
		k := heapKey{"X", "clock"}
		cur := fc.get(st, k, SInt, nil)
		nv := fc.freshSort("now", SInt)
		fc.assume(st, b("(and (>= %s %s) (> %s 0))", nv.S, cur.S, nv.S)) // monotone, and after the zero Time
		fc.set(st, k, nv)
		return []Term{{S: fmt.Sprintf("(- %s %s)", nv.S, args[0].S), Sort: SInt, T: fn.Type().(*types.Signature).Results().At(0).Type()}}, true
	case "(time.Duration).Seconds", "(time.Duration).Minutes", "(time.Duration).Hours", "(time.Duration).Milliseconds":
		// a float (or int) whose sign is the sign of the duration; magnitudes are not modelled
		if strings.HasSuffix(full, "Milliseconds") {
			r := Term{S: fmt.Sprintf("(tdiv %s 1000000)", recv.S), Sort: SInt, T: types.Typ[types.Int64]}
			return []Term{r}, true
		}
		fnName := "dur2flt_" + strings.ToLower(full[strings.LastIndex(full, ".")+1:])
		fc.declareFun(fnName, []string{SInt}, SFlt)
		zero := fc.fltLit("0", types.Typ[types.Float64])
		r := Term{S: fmt.Sprintf("(%s %s)", fnName, recv.S), Sort: SFlt, T: types.Typ[types.Float64]}
		fc.declareFun("fgt", []string{SFlt, SFlt}, SBool)
		fc.declareFun("fge", []string{SFlt, SFlt}, SBool)
		fc.declareFun("flt", []string{SFlt, SFlt}, SBool)
		fc.declareFun("fle", []string{SFlt, SFlt}, SBool)
		// its integer part is exact over the whole int64 range (the library computes the integer and the
		// fractional part separately), so converting it back to an integer truncates the exact quotient
		unit := map[string]string{"Hours": "3600000000000", "Minutes": "60000000000", "Seconds": "1000000000"}[fn.Name()]
		fc.declareFun("flt2int", []string{SFlt}, SInt)
		fc.assumeGlobal(b("(= (flt2int %s) (tdiv %s %s))", r.S, recv.S, unit))
		fc.assumptions["float: the integer part of Duration.Hours/Minutes/Seconds is the exact integer quotient (the time package computes integer and fractional parts separately)"] = true
		fc.assumeGlobal(b("(= (fgt %s %s) (> %s 0))", r.S, zero.S, recv.S))
		fc.assumeGlobal(b("(= (fge %s %s) (>= %s 0))", r.S, zero.S, recv.S))
		fc.assumeGlobal(b("(= (flt %s %s) (< %s 0))", r.S, zero.S, recv.S))
		fc.assumeGlobal(b("(= (fle %s %s) (<= %s 0))", r.S, zero.S, recv.S))
		fc.assumptions["float: Duration.Seconds/Minutes/Hours() compared with 0 has the sign of the duration (float64 conversion is monotone)"] = true
		return []Term{r}, true
	case "time.Until":
		k := heapKey{"X", "clock"}
		cur := fc.get(st, k, SInt, nil)
		nv := fc.freshSort("now", SInt)
		fc.assume(st, b("(and (>= %s %s) (> %s 0))", nv.S, cur.S, nv.S)) // monotone, and after the zero Time
		fc.set(st, k, nv)
		return []Term{{S: fmt.Sprintf("(- %s %s)", args[0].S, nv.S), Sort: SInt, T: fn.Type().(*types.Signature).Results().At(0).Type()}}, true
	}
	return nil, false
}

// nonRetainingCallee: library decoders that write through the pointers they are given and do not keep them
// (trusted; listed in the evidence as an assumption).
func nonRetainingCallee(fn *types.Func) bool {
	if fn.Pkg() == nil || inModule(fn.Pkg()) {
		return false
	}
	switch fn.Pkg().Path() {
	case "encoding/json", "encoding/xml", "encoding/gob", "encoding/binary", "encoding/base64", "encoding/hex":
		return true
	case "fmt":
		return strings.HasPrefix(fn.Name(), "Sscan") || strings.HasPrefix(fn.Name(), "Fscan")
	case "database/sql":
		return fn.Name() == "Scan"
	}
	return false
}

// pkgReaches: package from imports package to, directly or through module packages.
func (fc *FnCtx) pkgReaches(from, to string) bool {
	seen := map[string]bool{}
	var walk func(p string) bool
	walk = func(p string) bool {
		if p == to {
			return true
		}
		if seen[p] {
			return false
		}
		seen[p] = true
		pk := fc.prog.Pkgs[p]
		if pk == nil || !strings.HasPrefix(p, modRoot) {
			return false
		}
		for ip := range pk.Imports {
			if strings.HasPrefix(ip, modRoot) && walk(ip) {
				return true
			}
		}
		return false
	}
	return walk(from)
}

// interleave: `opt interleave=<pkg>` on the function under verification says that other requests may run any
// exported operation of <pkg> between two of this function's calls into <pkg> (each such call is its own critical
// section). Before every call into the package everything those operations can write is given a fresh value, so
// what an earlier call observed is not assumed to still hold: a decision split over two calls must be justified
// by the second call's own answer.
func (fc *FnCtx) interleave(st *State, fn *types.Func) {
	p := fc.contract.Opts["interleave"]
	if p == "" || fn == nil || fn.Pkg() == nil {
		return
	}
	p = strings.ReplaceAll(p, "@/", modInternal)
	if fn.Pkg().Path() != p {
		return
	}
	pk := fc.prog.Pkgs[p]
	if pk == nil || pk.Types == nil {
		return
	}
	fc.assumptions["interference: between two calls into "+p+" other requests may have run any exported operation of that package (its state is given fresh values before each such call)"] = true
	sc := pk.Types.Scope()
	for _, n := range sc.Names() {
		f, ok := sc.Lookup(n).(*types.Func)
		if !ok || !f.Exported() {
			continue
		}
		saved := fc.ptrArgs
		fc.ptrArgs = nil
		fc.havocForCall(st, f, f.FullName())
		fc.ptrArgs = saved
	}
}
