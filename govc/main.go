package main

import (
	"encoding/json"
	"flag"
	"fmt"
	"os"
	"path/filepath"
	"sort"
	"strconv"
	"strings"
	"time"
)

// Run is one invocation of a property check.
type Run struct {
	Prop     string
	Tier     string
	Repo     string
	Out      string // /verif
	EvDir    string // where evidence/ and replays/ are written (normally Out)
	Scratch  string
	Prog     *Program
	Eng      *Engine
	Spec     *PropSpec
	Results  []*FuncResult
	Extra    []*Obligation // table / lemma obligations produced by property-specific generators
	initOK   bool          // writersUnderContract: a package initialiser is not counted as an uncontracted writer
	Bounded  []map[string]any
	Notes    []string
	Assume   map[string]bool
	Trusted  map[string]bool
	Start    time.Time
	Verbose  bool
	Findings []*Finding
}

func main() {
	os.Setenv("PATH", goBin+":"+os.Getenv("PATH"))
	os.Setenv("GOFLAGS", "-mod=mod")
	os.Setenv("GOPROXY", "off")
	os.Setenv("GOSUMDB", "off")
	os.Setenv("GOTOOLCHAIN", "local")
	if len(os.Args) < 2 {
		fmt.Fprintln(os.Stderr, "usage: govc check <Cnn> [--tier quick|thorough] | govc func <pattern> <key> | govc replay <file>")
		os.Exit(2)
	}
	switch os.Args[1] {
	case "check":
		os.Exit(cmdCheck(os.Args[2:]))
	case "replay":
		os.Exit(cmdReplay(os.Args[2:]))
	case "sweep":
		os.Exit(cmdSweep(os.Args[2:]))
	case "writers":
		os.Exit(cmdWriters(os.Args[2:]))
	case "heavy":
		os.Exit(cmdHeavy(os.Args[2:]))
	case "path":
		os.Exit(cmdPath(os.Args[2:]))
	default:
		fmt.Fprintln(os.Stderr, "unknown command", os.Args[1])
		os.Exit(2)
	}
}

func cmdCheck(args []string) (code int) {
	// a tree that does not type-check can trip the loader or the frame builder: that is a broken run (exit 2),
	// never a verdict
	defer func() {
		if r := recover(); r != nil {
			fmt.Fprintf(os.Stderr, "BROKEN: engine stopped (does the tree compile?): %v\n", r)
			code = 2
		}
	}()
	fs := flag.NewFlagSet("check", flag.ExitOnError)
	tier := fs.String("tier", envOr("VERIF_TIER", "quick"), "quick|thorough")
	repo := fs.String("repo", "/repo", "repository root")
	out := fs.String("out", "/verif", "verif root")
	evDir := fs.String("evidence-dir", "", "write evidence and replays under this directory instead of <out> (selftest)")
	verbose := fs.Bool("v", false, "verbose")
	only := fs.String("only", "", "verify only functions whose name contains this")
	dump := fs.String("dump", "", "dump SMT of obligations whose name contains this into ./dump/")
	var prop string
	if len(args) > 0 && !strings.HasPrefix(args[0], "-") {
		prop = args[0]
		args = args[1:]
	}
	_ = fs.Parse(args)
	if prop == "" && fs.NArg() > 0 {
		prop = fs.Arg(0)
	}
	spec := propSpecs[prop]
	if spec == nil {
		fmt.Fprintln(os.Stderr, "unknown property", prop)
		return 2
	}
	scratch, err := os.MkdirTemp("", "govc-"+prop+"-")
	if err != nil {
		fmt.Fprintln(os.Stderr, err)
		return 2
	}
	defer os.RemoveAll(scratch)
	r := &Run{Prop: prop, Tier: *tier, Repo: *repo, Out: *out, Scratch: scratch, Spec: spec, Assume: map[string]bool{}, Trusted: map[string]bool{}, Start: time.Now(), Verbose: *verbose}
	r.EvDir = *out
	if *evDir != "" {
		r.EvDir = *evDir
	}
	prog, err := LoadProgram(*repo, scratch, spec.Patterns)
	if err != nil {
		fmt.Fprintln(os.Stderr, "BROKEN: load failed:", err)
		return 2
	}
	r.Prog = prog
	// package invariants written for other properties are not in force in this check
	for _, pc := range prog.Contracts {
		var keep []*Clause
		for _, inv := range pc.Invariants {
			if inv.Props == "" || propListed(inv.Props, r.Prop) {
				keep = append(keep, inv)
			}
		}
		pc.Invariants = keep
		for _, g := range pc.Guards {
			g.Enforced = g.Props == "" || propListed(g.Props, r.Prop)
		}
		for _, fcn := range pc.Funcs {
			keepC := func(cs []*Clause) []*Clause {
				var out []*Clause
				for _, c := range cs {
					if c.Props == "" || propListed(c.Props, r.Prop) {
						out = append(out, c)
					}
				}
				return out
			}
			fcn.Requires, fcn.Ensures, fcn.Anchored = keepC(fcn.Requires), keepC(fcn.Ensures), keepC(fcn.Anchored)
			for n, invs := range fcn.Invariants {
				fcn.Invariants[n] = keepC(invs)
			}
		}
	}
	r.Eng = &Engine{prog: prog, frame: BuildFrame(prog), prop: r.Prop}
	r.Eng.buildGuards()
	r.logf("loaded %d packages, frame: %d functions, %d escaping; %v", len(prog.Pkgs), len(r.Eng.frame.nodes), len(r.Eng.frame.esc), time.Since(r.Start))
	r.Findings, err = LoadFindings(filepath.Join(*out, "known_findings.txt"))
	if err != nil {
		fmt.Fprintln(os.Stderr, "BROKEN:", err)
		return 2
	}
	return r.check(*only, *dump)
}

func envOr(k, d string) string {
	if v := os.Getenv(k); v != "" {
		return v
	}
	return d
}

func (r *Run) logf(format string, args ...any) {
	if r.Verbose {
		fmt.Fprintf(os.Stderr, format+"\n", args...)
	}
}

func (r *Run) check(only, dump string) int {
	// functions under contract for this property
	var contracts []*FuncContract
	var paths []string
	for p := range r.Prog.Contracts {
		paths = append(paths, p)
	}
	sort.Strings(paths)
	for _, p := range paths {
		pc := r.Prog.Contracts[p]
		var keys []string
		for k := range pc.Funcs {
			keys = append(keys, k)
		}
		sort.Strings(keys)
		for _, k := range keys {
			c := pc.Funcs[k]
			if c.Trusted || !propListed(c.Opts["props"], r.Prop) {
				continue
			}
			if only != "" && !strings.Contains(c.Key, only) {
				continue
			}
			contracts = append(contracts, c)
		}
	}
	var all []*Obligation
	var unbound, engErrs []string
	for _, c := range contracts {
		t0 := time.Now()
		res := r.Eng.VerifyFunc(c)
		r.logf("lowered %s: %d obligations, %d cmds, %v", res.Name, len(res.Obls), res.Cmds, time.Since(t0))
		r.Results = append(r.Results, res)
		all = append(all, res.Obls...)
		unbound = append(unbound, res.Unbound...)
		if res.Err != "" {
			engErrs = append(engErrs, res.Err)
		}
		for _, t := range res.Trusted {
			r.Trusted[t] = true
		}
		for _, a := range res.Assumptions {
			r.Assume[a] = true
		}
	}
	// trusted contracts of the packages involved that no call site used: most likely a mistyped key
	if only == "" {
		pkgsSeen := map[string]bool{}
		for _, c := range contracts {
			pkgsSeen[c.PkgPath] = true
		}
		for p := range pkgsSeen {
			for k, c := range r.Prog.Contracts[p].Funcs {
				if c.Trusted && !c.Used && r.Eng.frame.usedTrustedFrames[k] == false {
					r.Notes = append(r.Notes, "trusted contract never applied (check its key): "+shortFuncName(k)+" in "+c.File)
				}
			}
		}
		sort.Strings(r.Notes)
	}
	if r.Spec.Extra != nil && only == "" {
		if err := r.Spec.Extra(r); err != nil {
			fmt.Fprintln(os.Stderr, "BROKEN: property generator failed:", err)
			return 2
		}
		all = append(all, r.Extra...)
	}
	timeout := 10
	if r.Tier == "thorough" {
		timeout = 60
	}
	smtDir := filepath.Join(r.Scratch, "smt")
	os.MkdirAll(smtDir, 0o755)
	if dump != "" {
		os.MkdirAll("dump", 0o755)
		for _, o := range all {
			if strings.Contains(o.Name, dump) && o.fc != nil {
				os.WriteFile(filepath.Join("dump", smtIdent(o.Name)+".smt2"), []byte(strings.Replace(o.smt(false), "@@HEAD@@", "", 1)), 0o644)
			}
		}
	}
	var toSolve []*Obligation
	for _, o := range all {
		if o.Answer == "" {
			// an obligation recorded as a known finding is tried once, briefly: it is expected not to discharge
			if matchFinding(r.Findings, r.Prop, o.Name) != nil {
				o.NoRetry = true
			}
			toSolve = append(toSolve, o)
		}
	}
	SolveAll(toSolve, solveOpts{timeoutS: timeout, dir: smtDir, par: 12})
	return r.report(all, unbound, engErrs)
}

func propListed(list, p string) bool {
	for _, x := range strings.FieldsFunc(list, func(c rune) bool { return c == ',' || c == ' ' }) {
		if x == p || x == "all" {
			return true
		}
	}
	return false
}

type sample struct {
	Obligation string `json:"obligation"`
	Class      string `json:"class"`
	Answer     string `json:"answer"`
	Backend    string `json:"backend"`
	Ms         int64  `json:"ms"`
	SmtBytes   int    `json:"smt_bytes"`
	Pos        string `json:"pos,omitempty"`
	Text       string `json:"text,omitempty"`
}

func (r *Run) report(all []*Obligation, unbound, engErrs []string) int {
	exit := 0
	violations := 0
	byBackend := map[string]int{}
	byClass := map[string]int{}
	obligations, discharged := 0, 0
	covers, coversSat := 0, 0
	var solverMs int64
	var samples []sample
	var undischarged []string
	var broken []string
	known := 0
	var knownNames []string
	sort.SliceStable(all, func(i, j int) bool { return all[i].Name < all[j].Name })
	seen := map[string]int{}
	for _, o := range all {
		seen[o.Name]++
		if seen[o.Name] > 1 {
			o.Name = fmt.Sprintf("%s~%d", o.Name, seen[o.Name])
		}
	}
	retTotal, retUnreach := map[string]int{}, map[string]int{}
	for _, o := range all {
		solverMs += o.Ms
		if o.ExpectSat {
			covers++
			if strings.Contains(o.Name, "/cover-return#") {
				retTotal[o.Func]++
			}
			if o.Answer == "sat" {
				coversSat++
			} else if o.Answer == "unsat" {
				// an unreachable function entry is a contradictory contract (the check is broken); an unreachable
				// return or loop body may be dead code, and is reported, unless nothing in the function is reachable
				if strings.HasSuffix(o.Name, "/cover-pre") {
					broken = append(broken, fmt.Sprintf("cover %s is unreachable (contradictory requires/invariants)", o.Name))
				} else {
					if strings.Contains(o.Name, "/cover-return#") {
						retUnreach[o.Func]++
					}
					r.Notes = append(r.Notes, "unreachable in the model (dead code, or an over-strong contract): "+o.Name+" at "+o.Pos)
				}
			} else {
				// unknown cover: not counted as reachable, not fatal
				r.Notes = append(r.Notes, "cover undecided: "+o.Name)
			}
			continue
		}
		if o.Class == "bounded" {
			// a bounded stand-in is reported on its own, never counted as an obligation discharged
			if o.Answer == "error" {
				// the stand-in did not run to completion (it does not build against this tree, or ran out of time):
				// nothing can be said, which is not a violation
				fmt.Printf("UNDECIDED property=%s %s: the bounded stand-in did not run to completion\n", r.Prop, o.Name)
				r.Notes = append(r.Notes, "bounded stand-in did not run to completion: "+o.Name+": "+lastLines(o.Output, 3))
				continue
			}
			if o.Answer != "unsat" {
				if f := matchFinding(r.Findings, r.Prop, o.Name); f != nil {
					known++
					knownNames = append(knownNames, o.Name+": "+f.What)
					fmt.Printf("KNOWN-FINDING: property=%s obligation=%s %s\n", r.Prop, o.Name, f.What)
					continue
				}
				violations++
				undischarged = append(undischarged, o.Name+": bounded stand-in failed")
				path := r.writeReplay(o)
				suffix := ""
				if !o.Reproduced {
					suffix = " no-failing-input-found"
				}
				fmt.Printf("VIOLATION property=%s replay=%s obligation=%s answer=%s (bounded stand-in)%s\n", r.Prop, path, o.Name, o.Answer, suffix)
				exit = 1
			}
			continue
		}
		obligations++
		byClass[o.Class]++
		if o.Answer == "unsat" {
			discharged++
			byBackend[o.Backend]++
			if len(samples) < 8 || (o.Class != "safe" && len(samples) < 14) {
				samples = append(samples, sample{o.Name, o.Class, o.Answer, o.Backend, o.Ms, o.Bytes, o.Pos, o.Text})
			}
			continue
		}
		if o.SoftTimeout && o.Answer != "sat" {
			obligations--
			byClass[o.Class]--
			r.Notes = append(r.Notes, "new site in a closed function neither proved nor refuted (undecided, not claimed): "+o.Name)
			continue
		}
		// refuted or undischarged
		if f := matchFinding(r.Findings, r.Prop, o.Name); f != nil {
			known++
			// a recorded finding is reported on its own line and is not part of what this run claims to have proved
			obligations--
			byClass[o.Class]--
			knownNames = append(knownNames, o.Name+": "+f.What)
			fmt.Printf("KNOWN-FINDING: property=%s obligation=%s %s\n", r.Prop, o.Name, f.What)
			samples = append(samples, sample{o.Name, o.Class, o.Answer + " (known finding)", o.Backend, o.Ms, o.Bytes, o.Pos, o.Text})
			continue
		}
		violations++
		undischarged = append(undischarged, o.Name+": "+o.Answer)
		path := r.writeReplay(o)
		suffix := ""
		if !o.Reproduced {
			suffix = " no-failing-input-found"
		}
		fmt.Printf("VIOLATION property=%s replay=%s obligation=%s answer=%s%s\n", r.Prop, path, o.Name, o.Answer, suffix)
		exit = 1
	}
	for f, n := range retTotal {
		if n > 0 && retUnreach[f] == n {
			broken = append(broken, fmt.Sprintf("no return of %s is reachable (contradictory contract or translation bug)", f))
		}
	}
	for _, u := range unbound {
		fmt.Printf("UNDECIDED property=%s %s\n", r.Prop, u)
	}
	for _, e := range engErrs {
		fmt.Printf("UNDECIDED property=%s engine: %s\n", r.Prop, e)
	}
	if obligations == 0 && len(r.Bounded) == 0 {
		broken = append(broken, "no obligations were generated")
	}
	var funcs []string
	var abstracted []string
	var unsupported []string
	for _, res := range r.Results {
		funcs = append(funcs, res.Name)
		for _, a := range res.Abstracted {
			abstracted = append(abstracted, res.Name+": "+a)
		}
		for _, a := range res.Unsupported {
			unsupported = append(unsupported, res.Name+": "+a)
		}
	}
	var trusted []string
	for t := range r.Trusted {
		trusted = append(trusted, "trusted contract: "+shortFuncName(t))
	}
	sort.Strings(trusted)
	var tframes []string
	for k := range r.Eng.frame.usedTrustedFrames {
		if !r.Trusted[k] {
			tframes = append(tframes, "trusted frame (assigns clause) used by the frame analysis: "+shortFuncName(k))
		}
	}
	sort.Strings(tframes)
	trusted = append(trusted, tframes...)
	trusted = append(trusted, r.Spec.TrustedBase...)
	trusted = append(trusted, "govc translation of the Go subset (DESIGN.md §3.4)", "go/types", "z3 4.8.12 / z3 5.1.0 / cvc5 1.0.3")
	assumptions := []string{"integers are mathematical in mode int (no overflow obligations)", "no-panic obligations are generated only in functions marked safe; elsewhere a nil dereference ends the path (a panicking execution reaches no later return or sink) and other panics are not modelled", "sequential semantics (no interleaving; what a goroutine started by a go statement does is not an effect of the call that starts it)", "slices have value semantics (aliasing through shared backing arrays is not modelled)", "library decoders (encoding/*, fmt.Sscan*, database/sql Scan) write through the pointers they are given during the call and do not keep them"}
	var as []string
	for a := range r.Assume {
		as = append(as, a)
	}
	sort.Strings(as)
	assumptions = append(assumptions, as...)
	assumptions = append(assumptions, r.Spec.Assumptions...)

	var slowest []sample
	{
		byMs := append([]*Obligation(nil), all...)
		sort.SliceStable(byMs, func(i, j int) bool { return byMs[i].Ms > byMs[j].Ms })
		for i := 0; i < len(byMs) && i < 6; i++ {
			o := byMs[i]
			slowest = append(slowest, sample{o.Name, o.Class, o.Answer, o.Backend, o.Ms, o.Bytes, o.Pos, ""})
		}
	}

	level := r.Spec.Level
	ev := map[string]any{
		"property_id": r.Prop,
		"tier":        r.Tier,
		"seed":        seedFromEnv(),
		"level":       level,
		"coverage": map[string]any{
			"obligations":              obligations,
			"discharged":               discharged,
			"checker_cmd":              fmt.Sprintf("./check %s --tier %s", r.Prop, r.Tier),
			"trusted_base":             trusted,
			"functions_under_contract": funcs,
			"by_backend":               byBackend,
			"by_class":                 byClass,
			"solver_wall_ms":           solverMs,
			"covers":                   map[string]int{"total": covers, "sat": coversSat},
			"abstracted":               abstracted,
			"unsupported":              unsupported,
			"unbound":                  unbound,
			"engine_errors":            engErrs,
			"undischarged":             undischarged,
			"known_findings":           known,
			"known_finding_obligations": knownNames,
			"bounded":                  r.Bounded,
			"notes":                    r.Notes,
			"samples":                  samples,
			"slowest":                  slowest,
			"explanation":              r.Spec.Explanation,
			"evaluations":              obligations + covers,
			"distinct_nontrivial":      obligations,
			"rule":                     "one SMT query per obligation generated from /repo's current source; distinct by obligation name; covers (expected sat) are counted in evaluations only",
		},
		"assumptions": assumptions,
		"wall_s":      time.Since(r.Start).Seconds(),
		"violations":  violations,
	}
	if len(broken) > 0 {
		for _, b := range broken {
			fmt.Printf("BROKEN property=%s %s\n", r.Prop, b)
		}
		ev["coverage"].(map[string]any)["broken"] = broken
		if exit == 0 {
			exit = 2
		}
	}
	os.MkdirAll(filepath.Join(r.EvDir, "evidence"), 0o755)
	b, _ := json.MarshalIndent(ev, "", " ")
	if err := os.WriteFile(filepath.Join(r.EvDir, "evidence", r.Prop+".json"), append(b, '\n'), 0o644); err != nil {
		fmt.Fprintln(os.Stderr, "cannot write evidence:", err)
		return 2
	}
	fmt.Printf("%s %s: %d/%d obligations discharged, %d covers (%d reachable), %d known findings, %d violations, %d undecided; %.1fs\n",
		r.Prop, r.Tier, discharged, obligations, covers, coversSat, known, violations, len(unbound)+len(engErrs), time.Since(r.Start).Seconds())
	return exit
}

func seedFromEnv() int {
	n, _ := strconv.Atoi(os.Getenv("VERIF_SEED"))
	return n
}

func lastLines(s string, n int) string {
	ls := strings.Split(strings.TrimSpace(s), "\n")
	if len(ls) > n {
		ls = ls[len(ls)-n:]
	}
	return strings.Join(ls, " | ")
}
