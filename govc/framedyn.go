package main

import (
	"go/ast"
	"go/types"
	"sort"
	"strings"
)

// Typed resolution of dynamic calls (class-hierarchy analysis with signature matching):
//   - a call of a function value of signature S can reach exactly the module functions / methods / literals
//     whose value is taken somewhere and whose signature is S;
//   - a call of method m through an interface I can reach exactly the methods m of module types that implement I
//     (plus library types, which have no effect on module state), unless the interface method carries a
//     contract with a frame, which is then used instead.

func sigKey(sig *types.Signature) string {
	if sig == nil {
		return ""
	}
	plain := types.NewSignatureType(nil, nil, nil, sig.Params(), sig.Results(), sig.Variadic())
	return types.TypeString(plain, nil)
}

func (f *Frame) resolveDynamic(valueTaken map[*types.Func]bool) {
	// escaping function values by signature
	bySig := map[string][]*fnode{}
	for fn, n := range f.nodes {
		if valueTaken[fn] {
			k := sigKey(fn.Type().(*types.Signature))
			bySig[k] = append(bySig[k], n)
		}
	}
	for _, l := range f.litNodes {
		if l.sig != "" {
			bySig[l.sig] = append(bySig[l.sig], l)
		}
	}
	implementers := f.implementers
	for _, n := range f.allNodes() {
		pkgOf := ""
		if n.fn != nil && n.fn.Pkg() != nil {
			pkgOf = n.fn.Pkg().Path()
		}
		seen := map[*fnode]bool{}
		add := func(ts []*fnode) {
			for _, t := range ts {
				if !seen[t] {
					seen[t] = true
					n.dynTargets = append(n.dynTargets, t)
				}
			}
		}
		for _, s := range n.dynSigs {
			add(bySig[s])
		}
		// calls of func-typed parameters: the arguments passed at the (static) call sites of n, when n's own
		// value is never taken; otherwise any escaping function of that signature
		for i, pi := range n.paramCalls {
			resolved := n.fn != nil && !n.isLit && !valueTaken[n.fn]
			var ts []*fnode
			if resolved {
				sites := 0
				for _, fa := range f.fnArgs {
					if fa.callee != n.fn || fa.idx != pi {
						continue
					}
					sites++
					switch {
					case fa.lit != nil && f.litByAST[fa.lit] != nil:
						ts = append(ts, f.litByAST[fa.lit])
					case fa.fn != nil && f.nodes[fa.fn] != nil:
						ts = append(ts, f.nodes[fa.fn])
					case fa.fn != nil && !inModule(fa.fn.Pkg()):
						// library function passed in: no module effect
					default:
						resolved = false
					}
				}
				if sites == 0 {
					resolved = false
				}
			}
			if resolved {
				add(ts)
			} else if i < len(n.paramCallSigs) {
				add(bySig[n.paramCallSigs[i]])
			} else {
				n.dynamic = true
			}
		}
		for _, ic := range append(append([]*types.Func{}, n.ifaceCalls...), n.extIfaceFns...) {
			if ws, ok := f.frameOf(ic, pkgOf); ok {
				n.frames = append(n.frames, ws)
				continue
			}
			add(implementers(ic))
		}
		n.ifaceCalls, n.extIfaceFns, n.extIface = nil, nil, nil
	}
}


// implementers: the methods named like m of module types that implement m's interface.
func (f *Frame) implementers(m *types.Func) []*fnode {
	if f.named == nil {
		for path, pk := range f.prog.Pkgs {
			if !strings.HasPrefix(path, "github.com/tucats/ego") || pk.Types == nil {
				continue
			}
			sc := pk.Types.Scope()
			for _, nm := range sc.Names() {
				if tn, ok := sc.Lookup(nm).(*types.TypeName); ok && !tn.IsAlias() {
					if nt, ok := tn.Type().(*types.Named); ok && nt.TypeParams().Len() == 0 {
						if _, isIface := nt.Underlying().(*types.Interface); !isIface {
							f.named = append(f.named, nt)
						}
					}
				}
			}
		}
		sort.Slice(f.named, func(i, j int) bool { return f.named[i].String() < f.named[j].String() })
		f.implCache = map[string][]*fnode{}
	}
	recv := m.Type().(*types.Signature).Recv()
	if recv == nil {
		return nil
	}
	iface, ok := recv.Type().Underlying().(*types.Interface)
	if !ok {
		return nil
	}
	key := recv.Type().String() + "." + m.Name()
	if r, ok := f.implCache[key]; ok {
		return r
	}
	var out []*fnode
	for _, nt := range f.named {
		for _, t := range []types.Type{nt, types.NewPointer(nt)} {
			if !types.Implements(t, iface) {
				continue
			}
			obj, _, _ := types.LookupFieldOrMethod(t, true, nt.Obj().Pkg(), m.Name())
			if mf, ok := obj.(*types.Func); ok {
				if n := f.nodes[mf.Origin()]; n != nil {
					out = append(out, n)
				}
			}
			break
		}
	}
	f.implCache[key] = out
	return out
}


type fnArg struct {
	callee *types.Func
	idx    int
	lit    *ast.FuncLit
	fn     *types.Func
}

func paramIndex(sig *types.Signature) map[types.Object]int {
	m := map[types.Object]int{}
	for i := 0; i < sig.Params().Len(); i++ {
		m[sig.Params().At(i)] = i
	}
	return m
}

func hasParam(m map[types.Object]int, o types.Object) bool {
	if o == nil {
		return false
	}
	_, ok := m[o]
	return ok
}
