package main

import (
	"fmt"
	"sort"
)

// dryRun symbolically executes one iteration of a loop on a scratch copy of st, under an unconstrained
// path condition and with obligations suppressed, to learn which state keys the iteration can change.
// That set (and nothing else) is havocked when the loop is cut at its head. Everything the dry run
// emits is guarded by its own fresh path condition, so it constrains nothing in the real run.
func (fc *FnCtx) dryRun(st *State, label string, iter func(d *State)) []any {
	// One dry iteration from the state at loop entry can miss assignments that only later iterations reach
	// (a branch guarded by a flag that is still a constant the first time round). So the dry run is repeated
	// from a state in which everything found so far already has an arbitrary value, until nothing new shows up.
	seen := map[any]bool{}
	var all []any
	cur := st
	for round := 0; round < 6; round++ {
		mod := fc.dryRunOnce(cur, label, iter)
		grew := false
		for _, k := range mod {
			if !seen[k] {
				seen[k] = true
				all = append(all, k)
				grew = true
			}
		}
		if !grew {
			break
		}
		cur = st.clone()
		savedFresh := fc.freshOnly
		fc.dry++
		fc.havocKeys(cur, all)
		fc.dry--
		fc.freshOnly = savedFresh
	}
	sort.Slice(all, func(i, j int) bool { return fmt.Sprint(all[i]) < fmt.Sprint(all[j]) })
	return all
}

func (fc *FnCtx) dryRunOnce(st *State, label string, iter func(d *State)) []any {
	// save ordinals so that names in the real run are unaffected
	savedLoopOrd, savedRetOrd := fc.loopOrd, fc.retOrd
	savedInvCall := fc.invCallOrd
	savedAssign := map[string]int{}
	for k, v := range fc.assignOrd {
		savedAssign[k] = v
	}
	defer func() { fc.invCallOrd = savedInvCall; fc.assignOrd = savedAssign }()
	savedCall := map[string]int{}
	for k, v := range fc.callOrd {
		savedCall[k] = v
	}
	savedSafe := map[string]int{}
	for k, v := range fc.safeOrd {
		savedSafe[k] = v
	}
	savedHit := map[int]bool{}
	for k, v := range fc.anchorHit {
		savedHit[k] = v
	}
	savedLoops := fc.loops
	outerLens := make([][2]int, len(fc.loops))
	for i, c := range fc.loops {
		outerLens[i] = [2]int{len(c.breaks), len(c.continues)}
	}
	savedAbs, savedUns := len(fc.abstracted), len(fc.unsupported)
	savedInl := fc.inl

	wStart, aStart := len(fc.wlog), len(fc.alog)
	fc.dry++
	d := st.clone()
	lv := fc.freshSort("dry", SBool)
	d.live = boolT(lv.S)
	d.defers = nil
	ctx := &loopCtx{label: label, isLoop: true}
	fc.loops = append(fc.loops, ctx)
	iter(d)
	fc.dry--

	finals := append([]*State{d}, ctx.continues...)
	mod := map[any]bool{}
	for _, f := range finals {
		if f == nil || f.dead() {
			continue
		}
		for k, v := range f.vars {
			if ov, ok := st.vars[k]; ok && ov.S != v.S {
				mod[k] = true
			}
		}
	}
	// field arrays that the iteration wrote only at references it allocated itself: everything that
	// existed at the loop head is unchanged in them (re-asserted by havocKeys after the havoc)
	fresh := map[string]bool{}
	for _, a := range fc.alog[aStart:] {
		fresh[a] = true
	}
	foreign := map[heapKey]bool{}
	for _, w := range fc.wlog[wStart:] {
		if !fresh[w.base] && w.base != "fresh-only-call" {
			foreign[w.key] = true
		}
	}
	fc.freshOnly = map[any]bool{}
	for k := range mod {
		if hk, ok := k.(heapKey); ok && hk.Kind == "F" && !foreign[hk] {
			fc.freshOnly[k] = true
		}
	}
	fc.wlog, fc.alog = fc.wlog[:wStart], fc.alog[:aStart]
	// restore
	fc.loops = savedLoops
	for i, c := range fc.loops {
		c.breaks = c.breaks[:outerLens[i][0]]
		c.continues = c.continues[:outerLens[i][1]]
	}
	fc.loopOrd, fc.retOrd = savedLoopOrd, savedRetOrd
	fc.callOrd, fc.safeOrd, fc.anchorHit = savedCall, savedSafe, savedHit
	if len(fc.abstracted) > savedAbs {
		fc.abstracted = fc.abstracted[:savedAbs]
	}
	if len(fc.unsupported) > savedUns {
		fc.unsupported = fc.unsupported[:savedUns]
	}
	fc.inl = savedInl
	var keys []any
	for k := range mod {
		keys = append(keys, k)
	}
	sort.Slice(keys, func(i, j int) bool { return fmt.Sprint(keys[i]) < fmt.Sprint(keys[j]) })
	return keys
}

// havocKeys gives fresh values to the listed keys of st.
func (fc *FnCtx) havocKeys(st *State, keys []any) {
	freshOnly := fc.freshOnly
	fc.freshOnly = nil
	allocAtHead := fc.get(st, allocKey, SInt, nil)
	for _, k := range keys {
		if freshOnly[k] {
			old := st.vars[k]
			nv := fc.freshSort(fc.keyName(k), old.Sort)
			nv.T = old.T
			fc.assume(st, boolT(fmt.Sprintf("(forall ((qp Int)) (! (=> (<= qp %s) (= (select %s qp) (select %s qp))) :pattern ((select %s qp))))", allocAtHead.S, nv.S, old.S, nv.S)))
			st.vars[k] = nv
			continue
		}
		old, ok := st.vars[k]
		if !ok {
			continue
		}
		hint := "h"
		switch kk := k.(type) {
		case heapKey:
			hint = fc.keyName(kk)
		case interface{ Name() string }:
			hint = kk.Name()
		}
		var nv Term
		if old.T != nil && sortOf(old.T) == old.Sort {
			nv = fc.fresh(hint, old.T)
		} else {
			nv = fc.freshSort(hint, old.Sort)
			nv.T = old.T
		}
		if k == allocKey {
			fc.assume(st, boolT(fmt.Sprintf("(>= %s %s)", nv.S, old.S)))
		}
		if hk, ok := k.(heapKey); ok && hk.Kind == "X" && hk.ID == "clock" {
			fc.assume(st, boolT(fmt.Sprintf("(>= %s %s)", nv.S, old.S)))
		}
		st.vars[k] = nv
	}
	fc.structValsAllocated(st)
}
