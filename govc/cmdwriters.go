package main

import (
	"fmt"
	"go/types"
	"os"
	"strings"
)

// govc writers <pkgpath-suffix>.<Type>.<field> ...   debugging aid: who writes a field, and is it in E's write set?
func cmdWriters(args []string) int {
	scratch, _ := os.MkdirTemp("", "govc-writers-")
	defer os.RemoveAll(scratch)
	prog, err := LoadProgram("/repo", scratch, []string{"./..."})
	if err != nil {
		fmt.Println(err)
		return 2
	}
	fr := BuildFrame(prog)
	for _, a := range args {
		parts := strings.Split(a, ".")
		if len(parts) != 3 {
			fmt.Println("want pkg.Type.field:", a)
			continue
		}
		for path, pk := range prog.Pkgs {
			if !strings.HasSuffix(path, "/"+parts[0]) || pk.Types == nil {
				continue
			}
			obj := pk.Types.Scope().Lookup(parts[1])
			if obj == nil {
				continue
			}
			st, ok := obj.Type().Underlying().(*types.Struct)
			if !ok {
				continue
			}
			for i := 0; i < st.NumFields(); i++ {
				f := st.Field(i)
				if f.Name() != parts[2] {
					continue
				}
				fmt.Printf("%s: writers=%v addrTaken=%v inE(foreign)=%v inE(fresh)=%v\n", a, fr.Writers(f), fr.addrTaken[f], fr.wE.vars[f], fr.wE.fresh[f])
				fmt.Printf("   inLight(foreign)=%v inLight(fresh)=%v heavy=%v\n", fr.wLight.vars[f], fr.wLight.fresh[f], fr.heavyList)
				for _, n := range fr.allNodes() {
					if n.writes.vars[f] {
						fmt.Printf("   foreign write in %s (reachable from E: %v)\n", n.name(), fr.reachE[n])
					}
				}
			}
		}
	}
	return 0
}
