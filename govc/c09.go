package main

import (
	"fmt"
	"go/ast"
	"go/token"
	"go/types"
	"sort"
	"strings"
)

// C09: every `go` statement of the module (non-test code) is found on every run and must be one of the kinds below,
// each of which is checked against the syntax around the statement. A new or restructured `go` statement that fits
// no kind is a failed obligation. Kinds:
//
//	program    the goroutine IS the Ego program's own (go statement of the language, the debugged program)
//	once       started at most once per process: lexically inside the function literal given to (sync.Once).Do of a
//	           package-level Once, or inside `if !g { ... g = true ... }` for a package-level guard g (a bool or an
//	           entry of a package-level map)
//	stopped    a helper that waits on a channel `done` which the starting function closes in a deferred call
//	           registered in that same function (so every exit, panics included, stops it)
//	oneshot    a helper whose body ends by one send on a channel of capacity >= 1 made in the starting function
//	           (it can never block on the send, so it ends when its work ends)
//	bounded    a helper that runs a terminating computation of its own (justified per site)
//	startup    started by the server / command start-up code, once per process (per site)
//	cli        belongs to an interactive command-line flow, not to program execution (per site)
type goKind struct {
	kind, why string
}

// classification by enclosing function (FullName) and ordinal of the go statement in it
var goSites = map[string]goKind{
	"(*" + modInternal + "language/bytecode.Context).RunFromAddress#1": {"stopped", "signal watcher of one run"},
	modInternal + "language/bytecode.goByteCode#1":                      {"program", "the Ego go statement"},
	modInternal + "language/debugger.Resume#1":                      {"program", "the program under the debugger"},
	modInternal + "runtime/rest.Exchange#1":                             {"stopped", "\"still waiting\" reporter of one REST exchange"},
	modInternal + "server/services.runChildViaPipe#1":                   {"oneshot", "pipe exchange with the child"},
	modInternal + "server/services.runChildProcess#1":                   {"oneshot", "cmd.Wait of the child"},
	modInternal + "caches.newCache#1":                                   {"once", "expiry sweeper, one per cache class"},
	modInternal + "caches.purge#1":                                      {"bounded", "cluster broadcast of one purge: BroadcastCacheFlush is a loop over the active peers with a 5 s client timeout each (C29)"},
	modInternal + "router.startRateLimitScan#1":                         {"once", "login-limiter sweeper"},
	modInternal + "cli/ui.OpenLogFile#1":                                {"once", "log roll-over task"},
	modInternal + "server/oauth.Initialize#1":                           {"once", "OAuth state purger"},
	modInternal + "server/tables.BeginHandler#1":              {"once", "expired-transaction cleaner"},
}

// startup / cli: whole functions (every go statement in them)
var goFuncs = map[string]goKind{
	modInternal + "commands.":        {"startup", "server start-up (internal/commands)"},
	modInternal + "cli/app.":         {"cli", "command-line flows (logon, timers)"},
	modInternal + "router.RequestShutdown": {"startup", "server shutdown: the process is about to exit"},
	modInternal + "server/auth.":     {"startup", "credential ager started when the in-memory user store is initialised"},
}

type goSite struct {
	encl string // FullName of the enclosing function declaration
	ord  int
	stmt *ast.GoStmt
	decl *ast.FuncDecl
	info *types.Info
	pos  string
}

func (r *Run) goStatements() []goSite {
	var out []goSite
	var paths []string
	for p := range r.Prog.Pkgs {
		if strings.HasPrefix(p, "github.com/tucats/ego") {
			paths = append(paths, p)
		}
	}
	sort.Strings(paths)
	for _, p := range paths {
		pk := r.Prog.Pkgs[p]
		if pk.TypesInfo == nil {
			continue
		}
		for _, f := range pk.Syntax {
			if strings.HasSuffix(r.Prog.Fset.Position(f.Pos()).Filename, "_test.go") {
				continue
			}
			for _, d := range f.Decls {
				fd, ok := d.(*ast.FuncDecl)
				if !ok || fd.Body == nil {
					continue
				}
				obj, _ := pk.TypesInfo.Defs[fd.Name].(*types.Func)
				if obj == nil {
					continue
				}
				n := 0
				ast.Inspect(fd.Body, func(x ast.Node) bool {
					if g, ok := x.(*ast.GoStmt); ok {
						n++
						pos := r.Prog.Fset.Position(g.Pos())
						out = append(out, goSite{obj.FullName(), n, g, fd, pk.TypesInfo, fmt.Sprintf("%s:%d", strings.TrimPrefix(pos.Filename, r.Repo+"/"), pos.Line)})
					}
					return true
				})
			}
		}
	}
	return out
}

// pathTo returns the chain of nodes from root down to target.
func pathTo(root ast.Node, target ast.Node) []ast.Node {
	var path, found []ast.Node
	ast.Inspect(root, func(n ast.Node) bool {
		if found != nil {
			return false
		}
		if n == nil {
			path = path[:len(path)-1]
			return true
		}
		path = append(path, n)
		if n == target {
			found = append([]ast.Node{}, path...)
			return false
		}
		return true
	})
	return found
}

func isPkgLevel(info *types.Info, e ast.Expr) (string, bool) {
	switch x := ast.Unparen(e).(type) {
	case *ast.Ident:
		if v, ok := info.Uses[x].(*types.Var); ok && v.Pkg() != nil && v.Parent() == v.Pkg().Scope() {
			return x.Name, true
		}
	case *ast.IndexExpr:
		if n, ok := isPkgLevel(info, x.X); ok {
			return n + "[...]", true
		}
	}
	return "", false
}


func (r *Run) checkOnce(s goSite) (bool, string) {
	path := pathTo(s.decl.Body, s.stmt)
	for i := len(path) - 1; i >= 0; i-- {
		switch x := path[i].(type) {
		case *ast.CallExpr:
			// X.Do(func() { ... go ... })
			if sel, ok := x.Fun.(*ast.SelectorExpr); ok && sel.Sel.Name == "Do" {
				if t := s.info.TypeOf(sel.X); t != nil && strings.HasSuffix(types.TypeString(t, nil), "sync.Once") {
					if name, ok := isPkgLevel(s.info, sel.X); ok {
						return true, "inside " + name + ".Do"
					}
				}
			}
		case *ast.IfStmt:
			// if !g { ... g = true ... }
			if u, ok := ast.Unparen(x.Cond).(*ast.UnaryExpr); ok && u.Op == token.NOT {
				if name, ok := isPkgLevel(s.info, u.X); ok {
					guard := exprText(r.Prog.Fset, u.X)
					set := false
					ast.Inspect(x.Body, func(n ast.Node) bool {
						if as, ok := n.(*ast.AssignStmt); ok && len(as.Lhs) == 1 && len(as.Rhs) == 1 {
							if exprText(r.Prog.Fset, as.Lhs[0]) == guard && exprText(r.Prog.Fset, as.Rhs[0]) == "true" {
								set = true
							}
						}
						return true
					})
					if set {
						return true, "guarded by " + name + ", which the same block sets"
					}
				}
			}
		}
	}
	return false, "not inside a package-level sync.Once.Do nor an `if !guard { guard = true }` block of a package-level guard"
}

// checkStopped: the goroutine receives from a channel that a deferred call of the starting function closes.
func (r *Run) checkStopped(s goSite) (bool, string) {
	lit, ok := s.stmt.Call.Fun.(*ast.FuncLit)
	if !ok {
		return false, "the goroutine is not a function literal"
	}
	recv := map[string]bool{}
	ast.Inspect(lit.Body, func(n ast.Node) bool {
		if u, ok := n.(*ast.UnaryExpr); ok && u.Op == token.ARROW {
			if id, ok := ast.Unparen(u.X).(*ast.Ident); ok {
				recv[id.Name] = true
			}
		}
		return true
	})
	closedDeferred := ""
	for _, st := range s.decl.Body.List { // the defer must be registered at the top level of the function body
		d, ok := st.(*ast.DeferStmt)
		if !ok {
			continue
		}
		ast.Inspect(d.Call, func(n ast.Node) bool {
			if ce, ok := n.(*ast.CallExpr); ok {
				if id, ok := ce.Fun.(*ast.Ident); ok && id.Name == "close" && len(ce.Args) == 1 {
					if a, ok := ast.Unparen(ce.Args[0]).(*ast.Ident); ok && recv[a.Name] {
						closedDeferred = a.Name
					}
				}
			}
			return true
		})
	}
	if closedDeferred == "" {
		return false, fmt.Sprintf("no deferred close, at the top level of the starting function, of a channel the goroutine waits on (it waits on %v)", keysOf(recv))
	}
	return true, "waits on " + closedDeferred + ", closed by a deferred call of the starting function"
}

func keysOf(m map[string]bool) []string {
	var out []string
	for k := range m {
		out = append(out, k)
	}
	sort.Strings(out)
	return out
}

// checkOneshot: the goroutine's last statement is a send on a channel made with capacity >= 1 in the starting function.
func (r *Run) checkOneshot(s goSite) (bool, string) {
	lit, ok := s.stmt.Call.Fun.(*ast.FuncLit)
	if !ok || len(lit.Body.List) == 0 {
		return false, "the goroutine is not a function literal"
	}
	last, ok := lit.Body.List[len(lit.Body.List)-1].(*ast.SendStmt)
	if !ok {
		return false, "the goroutine does not end with a send"
	}
	ch, ok := ast.Unparen(last.Chan).(*ast.Ident)
	if !ok {
		return false, "the send is not on a named channel"
	}
	sends := 0
	ast.Inspect(lit.Body, func(n ast.Node) bool {
		if _, ok := n.(*ast.SendStmt); ok {
			sends++
		}
		if _, ok := n.(*ast.ForStmt); ok {
			sends += 100
		}
		if _, ok := n.(*ast.RangeStmt); ok {
			sends += 100
		}
		return true
	})
	if sends != 1 {
		return false, "the goroutine sends more than once or loops"
	}
	buffered := false
	ast.Inspect(s.decl.Body, func(n ast.Node) bool {
		as, ok := n.(*ast.AssignStmt)
		if !ok || len(as.Lhs) != 1 || len(as.Rhs) != 1 {
			return true
		}
		if id, ok := as.Lhs[0].(*ast.Ident); !ok || id.Name != ch.Name {
			return true
		}
		if ce, ok := as.Rhs[0].(*ast.CallExpr); ok {
			if f, ok := ce.Fun.(*ast.Ident); ok && f.Name == "make" && len(ce.Args) == 2 {
				if tv := s.info.Types[ce.Args[1]]; tv.Value != nil && tv.Value.String() != "0" {
					buffered = true
				}
			}
		}
		return true
	})
	if !buffered {
		return false, "the channel " + ch.Name + " is not made with capacity >= 1 in the starting function"
	}
	return true, "ends with its only send, on " + ch.Name + " (capacity >= 1): it cannot block"
}

func c09Extra(r *Run) error {
	sites := r.goStatements()
	if len(sites) == 0 {
		r.table("C09/go-statements", false, "no go statement found (scan broken?)", "")
		return nil
	}
	seenKey := map[string]bool{}
	for _, s := range sites {
		key := fmt.Sprintf("%s#%d", s.encl, s.ord)
		seenKey[key] = true
		k, ok := goSites[key]
		if !ok {
			for prefix, fk := range goFuncs {
				if strings.HasPrefix(s.encl, prefix) {
					k, ok = fk, true
				}
			}
		}
		name := fmt.Sprintf("C09/go[%s#%d]", shortFuncName(s.encl), s.ord)
		if !ok {
			r.table(name, false, "every go statement is of a known kind with a lifetime argument", "unclassified go statement at "+s.pos)
			continue
		}
		good, detail := true, k.why
		switch k.kind {
		case "once":
			good, detail = r.checkOnce(s)
		case "stopped":
			good, detail = r.checkStopped(s)
		case "oneshot":
			good, detail = r.checkOneshot(s)
		}
		r.table(name, good, "go statement of kind "+k.kind+" ("+k.why+")", s.pos+": "+detail)
	}
	var stale []string
	for key := range goSites {
		if !seenKey[key] {
			stale = append(stale, key)
		}
	}
	sort.Strings(stale)
	if len(stale) > 0 {
		r.Notes = append(r.Notes, fmt.Sprintf("C09: classified go statements no longer present: %v", stale))
	}
	return nil
}
