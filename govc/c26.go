package main

import (
	"fmt"
	"go/ast"
	"go/token"
	"go/types"
	"sort"
	"strings"

	"golang.org/x/tools/go/types/typeutil"
)

// C26: table obligations around the deductive contracts.
//
//   sink[<function>:<callee>]  every call, in the runtime packages, the builtins and the bytecode interpreter, to a
//                   function that opens, creates, lists, stats, changes or removes a file by name is either in a
//                   function under a C26 contract that has an assertion anchored at that callee (the assertion says
//                   the name is confined; it is discharged deductively), or is on the list below of calls whose name
//                   does not come from the program
//   native[<pkg>.<Name>]       every native pass-through declaration (data.Function{Value: os.X, IsNative: true}) whose
//                   Value is such a function declares every string parameter Sandboxed
//   helpers         every function named sandboxName in the module is under a C26 contract
//   convert-to-native  the string case of bytecode.convertToNative rewrites a parameter declared Sandboxed through
//                   sandboxName before it is stored (canonical shape; another shape is undecided)

var c26Sinks = map[string]bool{
	"os.Open": true, "os.OpenFile": true, "os.Create": true, "os.CreateTemp": true, "os.ReadFile": true, "os.WriteFile": true,
	"os.ReadDir": true, "os.Remove": true, "os.RemoveAll": true, "os.Mkdir": true, "os.MkdirAll": true, "os.MkdirTemp": true,
	"os.Stat": true, "os.Lstat": true, "os.Chmod": true, "os.Chown": true, "os.Lchown": true, "os.Chdir": true, "os.Rename": true,
	"os.Truncate": true, "os.Symlink": true, "os.Link": true, "os.Readlink": true, "os.Chtimes": true, "os.DirFS": true,
	"io/ioutil.ReadFile": true, "io/ioutil.WriteFile": true, "io/ioutil.ReadDir": true, "io/ioutil.TempFile": true, "io/ioutil.TempDir": true,
	"path/filepath.Walk": true, "path/filepath.WalkDir": true, "path/filepath.Glob": true,
	"database/sql.Open": true,
}

// calls whose file name is not supplied by the program being run
var c26NotProgramSupplied = map[string]string{
	"rest.GetTLSConfiguration|os.ReadFile":       "the server certificate named by the configuration or the library path",
	"io.ReadConsoleText|os.Stat":                 "the console history file named by the configuration or the home directory",
	"io.ReadConsoleText|os.OpenFile":             "the console history file named by the configuration or the home directory",
	"bytecode.(*Context).Sandboxed|os.Mkdir":     "the default sandbox root itself, under os.TempDir()",
	"bytecode.fromFileByteCode|os.ReadFile":      "operand of the FromFile instruction: the name of the source file the compiler was given; debugger only",
	"bytecode.WriteProfileReportFile|os.Create":  "the --profile-file option of the command line",
}

func c26Extra(r *Run) error {
	inScope := func(pkgPath string) bool {
		rel := strings.TrimPrefix(pkgPath, modInternal)
		return rel != pkgPath && (strings.HasPrefix(rel, "runtime/") || rel == "builtins" || strings.HasPrefix(rel, "builtins/") || rel == "language/bytecode")
	}
	type site struct {
		fn, callee, pos string
	}
	var sites []site
	var paths []string
	for p := range r.Prog.Pkgs {
		if inScope(p) {
			paths = append(paths, p)
		}
	}
	sort.Strings(paths)
	fset := r.Prog.Fset
	for _, p := range paths {
		pk := r.Prog.Pkgs[p]
		if pk.TypesInfo == nil {
			continue
		}
		for _, f := range pk.Syntax {
			if strings.HasSuffix(fset.Position(f.Pos()).Filename, "_test.go") {
				continue
			}
			for _, d := range f.Decls {
				fd, ok := d.(*ast.FuncDecl)
				if !ok || fd.Body == nil {
					continue
				}
				obj, _ := pk.TypesInfo.Defs[fd.Name].(*types.Func)
				if obj == nil {
					continue
				}
				ast.Inspect(fd.Body, func(n ast.Node) bool {
					call, ok := n.(*ast.CallExpr)
					if !ok {
						return true
					}
					if fn, ok := typeutil.Callee(pk.TypesInfo, call).(*types.Func); ok && fn.Pkg() != nil {
						key := fn.Pkg().Path() + "." + fn.Name()
						if c26Sinks[key] && fn.Type().(*types.Signature).Recv() == nil {
							sites = append(sites, site{obj.FullName(), key, fset.Position(call.Pos()).String()})
						}
					}
					return true
				})
			}
		}
	}
	seen := map[string]int{}
	for _, s := range sites {
		short := shortFuncName(s.fn)
		calleeShort := s.callee[strings.LastIndex(s.callee, "/")+1:]
		if s.callee == "database/sql.Open" {
			calleeShort = "sql.Open"
		}
		id := short + "|" + calleeShort
		seen[id]++
		if seen[id] > 1 {
			continue // one obligation per (function, callee): the anchored assertion covers every occurrence (#*)
		}
		name := fmt.Sprintf("C26/sink[%s:%s]", shortFuncName(s.fn), calleeShort)
		text := fmt.Sprintf("%s calls %s with a confined name (contract) or with a name the program does not supply", shortFuncName(s.fn), calleeShort)
		if why, ok := c26NotProgramSupplied[id]; ok {
			if why == "" {
				why = "the file named by the configuration"
			}
			r.table(name, true, text, "not program-supplied: "+why)
			r.Assume["C26: "+shortFuncName(s.fn)+" calls "+calleeShort+" with a name the program does not supply ("+why+")"] = true
			continue
		}
		c := r.Prog.ContractFor(s.fn, "")
		covered := false
		if c != nil && !c.Trusted && propListed(c.Opts["props"], r.Prop) {
			for _, a := range c.Anchored {
				if a.AnchorKind == "call" && a.Kind == "assert" && (a.AnchorName == calleeShort || strings.HasSuffix(a.AnchorName, "."+calleeShort[strings.Index(calleeShort, ".")+1:])) {
					covered = true
				}
			}
		}
		detail := "at " + s.pos
		if !covered {
			detail += ": no C26 contract with an assertion anchored at this call"
		}
		r.table(name, covered, text, detail)
	}
	if len(sites) == 0 {
		r.table("C26/sink[none]", false, "file-system calls found in the runtime packages", "the scan found none: broken")
	}

	// native pass-through declarations
	natives := 0
	for _, p := range paths {
		pk := r.Prog.Pkgs[p]
		if pk.TypesInfo == nil {
			continue
		}
		for _, f := range pk.Syntax {
			if strings.HasSuffix(fset.Position(f.Pos()).Filename, "_test.go") {
				continue
			}
			ast.Inspect(f, func(n ast.Node) bool {
				cl, ok := n.(*ast.CompositeLit)
				if !ok {
					return true
				}
				t := pk.TypesInfo.TypeOf(cl)
				if t == nil || !strings.HasSuffix(types.TypeString(t, nil), "language/data.Function") {
					return true
				}
				var value ast.Expr
				var decl *ast.CompositeLit
				for _, e := range cl.Elts {
					kv, ok := e.(*ast.KeyValueExpr)
					if !ok {
						continue
					}
					switch identName(kv.Key) {
					case "Value":
						value = kv.Value
					case "Declaration":
						if u, ok := kv.Value.(*ast.UnaryExpr); ok {
							decl, _ = u.X.(*ast.CompositeLit)
						}
					}
				}
				sel, ok := value.(*ast.SelectorExpr)
				if !ok {
					return true
				}
				fn, ok := pk.TypesInfo.Uses[sel.Sel].(*types.Func)
				if !ok || fn.Pkg() == nil || !c26Sinks[fn.Pkg().Path()+"."+fn.Name()] {
					return true
				}
				natives++
				name := fmt.Sprintf("C26/native[%s.%s]", pk.Name, fn.Name())
				text := fmt.Sprintf("the native declaration that passes calls through to %s.%s declares every string parameter Sandboxed", fn.Pkg().Name(), fn.Name())
				var bad []string
				params := 0
				if decl != nil {
					for _, e := range decl.Elts {
						kv, ok := e.(*ast.KeyValueExpr)
						if !ok || identName(kv.Key) != "Parameters" {
							continue
						}
						pl, ok := kv.Value.(*ast.CompositeLit)
						if !ok {
							continue
						}
						for _, pe := range pl.Elts {
							pc, ok := pe.(*ast.CompositeLit)
							if !ok {
								continue
							}
							pname, isString, sandboxed := "", false, false
							for _, fe := range pc.Elts {
								fkv, ok := fe.(*ast.KeyValueExpr)
								if !ok {
									continue
								}
								switch identName(fkv.Key) {
								case "Name":
									pname = squash(fset, fkv.Value)
								case "Type":
									isString = strings.HasSuffix(squash(fset, fkv.Value), "StringType")
								case "Sandboxed":
									sandboxed = identName(fkv.Value) == "true"
								}
							}
							if isString {
								params++
								// CreateTemp's pattern is not a path (os.CreateTemp rejects a pattern with a separator)
								if !sandboxed && !(fn.Name() == "CreateTemp" && strings.Contains(pname, "pattern")) {
									bad = append(bad, "parameter "+pname+" is not Sandboxed")
								}
							}
						}
					}
				}
				if decl == nil || params == 0 {
					bad = append(bad, "declaration or its string parameters not found")
				}
				r.table(name, len(bad) == 0, text, strings.Join(bad, "; "))
				return true
			})
		}
	}
	if natives == 0 {
		r.table("C26/native[none]", false, "native pass-through declarations found", "the scan found none: broken")
	}

	// every sandboxName helper is under contract
	{
		var missing, have []string
		for full, src := range r.Prog.FuncDecls {
			if src.Obj.Name() != "sandboxName" || strings.HasSuffix(fset.Position(src.Decl.Pos()).Filename, "_test.go") {
				continue
			}
			c := r.Prog.ContractFor(full, "")
			if c != nil && !c.Trusted && propListed(c.Opts["props"], r.Prop) && len(c.Ensures) > 0 {
				have = append(have, shortFuncName(full))
			} else {
				missing = append(missing, shortFuncName(full))
			}
		}
		sort.Strings(have)
		sort.Strings(missing)
		r.table("C26/helpers[sandboxName]", len(missing) == 0 && len(have) > 0, "every sandboxName helper of the module is under a C26 contract", fmt.Sprintf("under contract: %v; not: %v", have, missing))
	}
	// the string case of convertToNative
	{
		const want = "casedata.StringKind:str:=data.String(functionArgument)ifargumentIndex<len(function.Declaration.Parameters)&&function.Declaration.Parameters[argumentIndex].Sandboxed{str=sandboxName(c,str)}nativeArgs[argumentIndex]=str"
		src := r.Prog.FuncDecls[modInternal+"language/bytecode.convertToNative"]
		found := false
		if src != nil && src.Decl.Body != nil {
			ast.Inspect(src.Decl.Body, func(n ast.Node) bool {
				cc, ok := n.(*ast.CaseClause)
				if !ok || len(cc.List) != 1 || squash(fset, cc.List[0]) != "data.StringKind" {
					return true
				}
				found = true
				text := "the string case of convertToNative rewrites a parameter declared Sandboxed through sandboxName before storing it"
				if squash(fset, cc) == want {
					r.table("C26/convert-to-native[string]", true, text, "")
				} else {
					r.tableSoft("C26/convert-to-native[string]", text, "the case differs from the shape this scanner recognises: undecided here")
				}
				return false
			})
		}
		if !found {
			r.table("C26/convert-to-native[string]", false, "the string case of convertToNative exists", "not found")
		}
	}
	r.boundedGoTest("C26-battery", "real Ego programs run in-process with sandboxed I/O: after each one the tree outside the sandbox root is byte-for-byte unchanged and nothing printed carries the content, the size or the name of an outside file",
		"24 file-touching calls of the os, io and json packages (ReadFile, Stat, Open+Read, WriteFile, Create, Chmod, Remove, RemoveAll, Mkdir, MkdirAll, CreateTemp, io.Open in four modes, io.ReadDir, io.Expand, json.ReadFile/WriteFile) x 7 to 13 spellings of an outside location each (absolute, .., repeated separators, root/.., through a link to a file, through a link to a directory, a dangling link, a dangling directory link, a directory named x..) plus three io.Expand extension arguments, six flag-shadowing programs and the empty name (the process temporary directory lies outside the sandbox): 273 programs, one fixed layout of links")
	return nil
}

// cacheWriteThrough: every function of package pkgPath that writes the table behind the handle named handleText keeps
// the cache cacheConst honest, in one of two ways: (after) a caches.Add or caches.Delete on that cache follows the last
// write; or (before) a caches.Delete on it precedes the first write and no method of the same service whose name starts
// with fillerPrefix (the reader that fills the cache) is called in between. Anything else leaves a window in which the
// reader keeps answering with the record as it was.
func (r *Run) cacheWriteThrough(obl, pkgPath, handleText, cacheConst, fillerPrefix, text string) {
	pk := r.Prog.Pkgs[pkgPath]
	if pk == nil || pk.TypesInfo == nil {
		r.table(obl, false, text, "package not loaded")
		return
	}
	fset := r.Prog.Fset
	writes := map[string]bool{"Insert": true, "Update": true, "UpdateOne": true, "Delete": true, "DeleteOne": true}
	var bad, good []string
	for _, f := range pk.Syntax {
		if strings.HasSuffix(fset.Position(f.Pos()).Filename, "_test.go") {
			continue
		}
		for _, d := range f.Decls {
			fd, ok := d.(*ast.FuncDecl)
			if !ok || fd.Body == nil {
				continue
			}
			var firstWrite, lastWrite, firstDrop, lastCacheOp token.Pos
			var fills []token.Pos
			ast.Inspect(fd.Body, func(n ast.Node) bool {
				call, ok := n.(*ast.CallExpr)
				if !ok {
					return true
				}
				sel, ok := call.Fun.(*ast.SelectorExpr)
				if !ok {
					return true
				}
				recvText := squash(fset, sel.X)
				switch {
				case writes[sel.Sel.Name] && strings.Contains(recvText, handleText):
					if firstWrite == 0 || call.Pos() < firstWrite {
						firstWrite = call.Pos()
					}
					if call.Pos() > lastWrite {
						lastWrite = call.Pos()
					}
				case recvText == "caches" && (sel.Sel.Name == "Delete" || sel.Sel.Name == "Add") && len(call.Args) >= 1 && squash(fset, call.Args[0]) == cacheConst:
					if sel.Sel.Name == "Delete" && (firstDrop == 0 || call.Pos() < firstDrop) {
						firstDrop = call.Pos()
					}
					if call.Pos() > lastCacheOp {
						lastCacheOp = call.Pos()
					}
				case strings.HasPrefix(sel.Sel.Name, fillerPrefix) && fd.Recv != nil && len(fd.Recv.List) > 0 && len(fd.Recv.List[0].Names) > 0 && recvText == fd.Recv.List[0].Names[0].Name:
					fills = append(fills, call.Pos())
				}
				return true
			})
			// only the service's methods: the constructor seeds the table before any reader (and any cache entry) exists
			if firstWrite == 0 || fd.Recv == nil {
				continue
			}
			name := fd.Name.Name
			if fd.Recv != nil && len(fd.Recv.List) > 0 {
				name = "(" + squash(fset, fd.Recv.List[0].Type) + ")." + name
			}
			after := lastCacheOp > lastWrite
			before := firstDrop != 0 && firstDrop < firstWrite
			if before {
				for _, p := range fills {
					if p > firstDrop && p < firstWrite {
						before = false
					}
				}
			}
			switch {
			case after:
				good = append(good, name+" (refreshes the cache after the write)")
			case before:
				good = append(good, name+" (drops the cached record before the write)")
			default:
				bad = append(bad, name+" writes the table at "+fset.Position(firstWrite).String()+" and neither refreshes the cache afterwards nor drops the record beforehand without reading it back in")
			}
		}
	}
	sort.Strings(good)
	sort.Strings(bad)
	r.table(obl, len(bad) == 0 && len(good) > 0, text, fmt.Sprintf("writers: %v; %s", good, strings.Join(bad, "; ")))
}

func c43Extra(r *Run) error {
	r.boundedGoTest("C43-histories", "after a history of grant / revoke requests the user can read the table exactly when the grants the server accepted say so (model: elements in the handler's sorted order, trimmed, a leading '-' revokes)",
		"18 histories of one to two requests with ordinary and odd spellings (leading blank or tab before the sign, blank after it, trailing blank, upper case, doubled signs, grant and revoke of one permission in one request, another user, another table), real handler, real restricted SQLite DSN")
	r.cacheWriteThrough("C43/dsn-cache-write-through[dsns]", modInternal+"dsns", "dsnHandle", "caches.DSNCache", "Read",
		"every function of the DSN service that writes the dsns table keeps the cached DSN record honest (so ReadDSN, which the row handlers and Authorized consult, cannot keep answering with the record as it was)")
	return nil
}

func c25Extra(r *Run) error {
	// who may assign a stored credential: the census of writers of defs.User.Password in the credential stores
	if f := r.structField(modInternal+"defs", "User", "Password"); f != nil {
		allowed := map[string]string{
			"auth.ValidatePassword":             "the bcrypt upgrade of an accepted legacy credential (under contract)",
			"auth.SetUser":                      "stores the credential an administrator supplied",
			"auth.(*databaseService).ListUsers": "masks the credential in the listing it returns (a copy)",
			"auth.(*fileService).ListUsers":     "masks the credential in the listing it returns (a copy)",
		}
		var bad, ok []string
		seen := map[string]bool{}
		if apk := r.Prog.Pkgs[modInternal+"server/auth"]; apk != nil && apk.TypesInfo != nil {
			for _, file := range apk.Syntax {
				if strings.HasSuffix(r.Prog.Fset.Position(file.Pos()).Filename, "_test.go") {
					continue
				}
				for _, d := range file.Decls {
					fd, isFn := d.(*ast.FuncDecl)
					if !isFn || fd.Body == nil {
						continue
					}
					obj, _ := apk.TypesInfo.Defs[fd.Name].(*types.Func)
					if obj == nil {
						continue
					}
					name := shortFuncName(obj.FullName())
					ast.Inspect(fd.Body, func(n ast.Node) bool {
						as, isAssign := n.(*ast.AssignStmt)
						if !isAssign {
							return true
						}
						for _, l := range as.Lhs {
							sel, isSel := l.(*ast.SelectorExpr)
							if !isSel {
								continue
							}
							// a local copy counts too: it is usually stored back
							if v, _ := apk.TypesInfo.Uses[sel.Sel].(*types.Var); v == f && !seen[name] {
								seen[name] = true
								if why, found := allowed[name]; found {
									ok = append(ok, name+": "+why)
								} else {
									bad = append(bad, name+" ("+r.Prog.Fset.Position(as.Pos()).String()+")")
								}
							}
						}
						return true
					})
				}
			}
		}
		sort.Strings(ok)
		sort.Strings(bad)
		r.table("C25/credential-writers[auth]", len(bad) == 0 && len(ok) > 0, "in the credential stores (package auth) a stored credential is assigned only by the listed functions; loading, reading and caching never rewrite it", fmt.Sprintf("writers: %v; not on the list: %v", ok, bad))
	}
	r.cacheWriteThrough("C25/user-cache-write-through[auth]", modInternal+"server/auth", "userHandle", "caches.AuthCache", "Read",
		"every function of the database user store that writes the credentials table keeps the cached user record honest (so ReadUser, which ValidatePassword consults, cannot keep answering with the credential as it was)")
	return nil
}

// reaches: is there a path of direct calls, function literals and resolved dynamic calls from the function named
// from to the one named to (full names)?
func (r *Run) reaches(from, to string) (bool, string) {
	f := r.Eng.frame
	var start *fnode
	for _, n := range f.allNodes() {
		if n.fn != nil && n.fn.FullName() == from {
			start = n
		}
	}
	if start == nil {
		return false, ""
	}
	type item struct {
		n    *fnode
		path string
	}
	seen := map[*fnode]bool{start: true}
	queue := []item{{start, shortFuncName(from)}}
	for len(queue) > 0 {
		c := queue[0]
		queue = queue[1:]
		if c.n.fn != nil && c.n.fn.FullName() == to && c.n != start {
			return true, c.path
		}
		push := func(t *fnode) {
			if t != nil && !seen[t] {
				seen[t] = true
				name := "(literal)"
				if t.fn != nil {
					name = shortFuncName(t.fn.FullName())
				}
				queue = append(queue, item{t, c.path + " -> " + name})
			}
		}
		for _, cal := range c.n.callees {
			push(f.nodes[cal])
		}
		for _, l := range c.n.lits {
			push(l)
		}
		for _, t := range c.n.dynTargets {
			push(t)
		}
	}
	return false, ""
}

// c44DecryptCensus: the REST handlers for DSNs never reach the function that decrypts a stored DSN password (the
// connection string it is spliced into is for the database driver, not for a response).
func c44DecryptCensus(r *Run) {
	hp := modInternal + "server/dsns"
	target := modInternal + "dsns.decrypt"
	pk := r.Prog.Pkgs[hp]
	if pk == nil || pk.TypesInfo == nil {
		r.table("C44/handlers-never-decrypt[server/dsns]", false, "package server/dsns loaded", "not loaded")
		return
	}
	var bad []string
	n := 0
	for full, src := range r.Prog.FuncDecls {
		if src.Pkg.PkgPath != hp || strings.HasSuffix(r.Prog.Fset.Position(src.Decl.Pos()).Filename, "_test.go") {
			continue
		}
		n++
		if ok, path := r.reaches(full, target); ok {
			bad = append(bad, path)
		}
	}
	sort.Strings(bad)
	r.table("C44/handlers-never-decrypt[server/dsns]", len(bad) == 0 && n > 0, "no function of the DSN REST handlers reaches dsns.decrypt, the one function that turns a stored DSN password back into text", fmt.Sprintf("%d functions; %s", n, strings.Join(bad, "; ")))
}
