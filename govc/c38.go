package main

import (
	"fmt"
	"go/ast"
	"go/constant"
	"go/types"
	"regexp"
	"sort"
	"strconv"
	"strings"

	"golang.org/x/tools/go/types/typeutil"
)

// C38: ground ("table") obligations over the message table that tools/lang builds from /repo's current language
// files (the generated messages.go this run loaded) and over every call site in the module whose key argument is a
// compile-time constant.

// messageTable reads the `messages` composite literal of package i18n.
func (r *Run) messageTable() map[string]map[string]string {
	pk := r.Prog.Pkgs[modInternal+"i18n"]
	if pk == nil {
		return nil
	}
	out := map[string]map[string]string{}
	for _, f := range pk.Syntax {
		for _, d := range f.Decls {
			gd, ok := d.(*ast.GenDecl)
			if !ok {
				continue
			}
			for _, sp := range gd.Specs {
				vs, ok := sp.(*ast.ValueSpec)
				if !ok || len(vs.Names) != 1 || vs.Names[0].Name != "messages" || len(vs.Values) != 1 {
					continue
				}
				cl, ok := vs.Values[0].(*ast.CompositeLit)
				if !ok {
					continue
				}
				for _, e := range cl.Elts {
					kv, ok := e.(*ast.KeyValueExpr)
					if !ok {
						continue
					}
					key, ok1 := litString(kv.Key)
					inner, ok2 := kv.Value.(*ast.CompositeLit)
					if !ok1 || !ok2 {
						continue
					}
					m := map[string]string{}
					for _, ie := range inner.Elts {
						ikv, ok := ie.(*ast.KeyValueExpr)
						if !ok {
							continue
						}
						lang, ok1 := litString(ikv.Key)
						text, ok2 := litString(ikv.Value)
						if ok1 && ok2 {
							m[lang] = text
						}
					}
					out[key] = m
				}
			}
		}
	}
	return out
}

func litString(e ast.Expr) (string, bool) {
	bl, ok := e.(*ast.BasicLit)
	if !ok {
		return "", false
	}
	s, err := strconv.Unquote(bl.Value)
	return s, err == nil
}

var rePlaceholder = regexp.MustCompile(`\{\{\s*([A-Za-z_][\w.]*)`)

func placeholders(text string) []string {
	set := map[string]bool{}
	for _, m := range rePlaceholder.FindAllStringSubmatch(text, -1) {
		set[m[1]] = true
	}
	var out []string
	for k := range set {
		out = append(out, k)
	}
	sort.Strings(out)
	return out
}

// i18n entry points: the argument that is the key, and the prefix the entry point adds (read off ofTypeLang / errors
// formatting; a table obligation below checks those prefixes against the source).
var i18nEntry = map[string]struct {
	arg    int
	prefix string
}{
	modInternal + "i18n.T":     {0, ""},
	modInternal + "i18n.Text":  {1, ""},
	modInternal + "i18n.L":     {0, "label."},
	modInternal + "i18n.LLang": {1, "label."},
	modInternal + "i18n.M":     {0, "msg."},
	modInternal + "i18n.MLang": {1, "msg."},
	modInternal + "i18n.E":     {0, "error."},
	modInternal + "i18n.ELang": {1, "error."},
	modInternal + "errors.Message": {0, "error."},
}

func c38Extra(r *Run) error {
	table := r.messageTable()
	if len(table) == 0 {
		r.table("C38/message-table", false, "the message table could not be read from the generated messages.go", "")
		return nil
	}
	langs := map[string]bool{}
	for _, m := range table {
		for l := range m {
			langs[l] = true
		}
	}
	var langList []string
	for l := range langs {
		langList = append(langList, l)
	}
	sort.Strings(langList)

	// (1) every key resolves in English (so the documented fallback works for every language)
	var keys []string
	for k := range table {
		keys = append(keys, k)
	}
	sort.Strings(keys)
	var noEn []string
	for _, k := range keys {
		if strings.TrimSpace(table[k]["en"]) == "" {
			noEn = append(noEn, k)
		}
	}
	r.table("C38/every-key-has-english-text", len(noEn) == 0, "every key of the message table has non-empty English text (the fallback of every other language)", fmt.Sprintf("%d keys, %d languages %v; without English text: %v", len(keys), len(langList), langList, noEn))

	// (2) each translation uses the placeholders of the English text
	for _, l := range langList {
		if l == "en" {
			continue
		}
		var bad []string
		n := 0
		for _, k := range keys {
			t, ok := table[k][l]
			if !ok {
				continue
			}
			n++
			if strings.TrimSpace(t) == "" {
				bad = append(bad, k+" (empty)")
				continue
			}
			a, b := placeholders(table[k]["en"]), placeholders(t)
			if strings.Join(a, ",") != strings.Join(b, ",") {
				bad = append(bad, fmt.Sprintf("%s (en %v, %s %v)", k, a, l, b))
			}
		}
		r.table("C38/placeholders["+l+"]", len(bad) == 0, "every "+l+" translation is non-empty and uses exactly the substitution placeholders of the English text", fmt.Sprintf("%d translations; differing: %v", n, bad))
	}

	// (2b) the prefix each entry point adds is the one assumed below
	if pk := r.Prog.Pkgs[modInternal+"i18n"]; pk != nil {
		want := map[string]string{"L": "label", "LLang": "label", "M": "msg", "MLang": "msg", "E": "error", "ELang": "error"}
		var bad []string
		for _, f := range pk.Syntax {
			for _, d := range f.Decls {
				fd, ok := d.(*ast.FuncDecl)
				if !ok || fd.Body == nil || fd.Recv != nil {
					continue
				}
				w, ok := want[fd.Name.Name]
				if !ok {
					continue
				}
				found := false
				ast.Inspect(fd.Body, func(n ast.Node) bool {
					ce, ok := n.(*ast.CallExpr)
					if !ok {
						return true
					}
					if id, ok := ce.Fun.(*ast.Ident); ok && (id.Name == "ofType" || id.Name == "ofTypeLang") {
						for _, a := range ce.Args {
							if s, ok := litString(a); ok && s == w {
								found = true
							}
						}
					}
					return true
				})
				if !found {
					bad = append(bad, fd.Name.Name)
				}
				delete(want, fd.Name.Name)
			}
		}
		for n := range want {
			bad = append(bad, n+" (not found)")
		}
		sort.Strings(bad)
		r.table("C38/entry-point-prefixes", len(bad) == 0, "i18n.L/M/E (and their *Lang forms) look a key up under label. / msg. / error.", fmt.Sprintf("mismatching: %v", bad))
	}

	// (3) every constant key at a call site of an i18n entry point resolves
	type site struct{ key, where string }
	used := map[string][]string{} // full key -> call sites
	nonConst := 0
	exempt := 0
	var paths []string
	for p := range r.Prog.Pkgs {
		if strings.HasPrefix(p, "github.com/tucats/ego") {
			paths = append(paths, p)
		}
	}
	sort.Strings(paths)
	for _, p := range paths {
		pk := r.Prog.Pkgs[p]
		if pk.TypesInfo == nil {
			continue
		}
		for _, f := range pk.Syntax {
			if strings.HasSuffix(r.Prog.Fset.Position(f.Pos()).Filename, "_test.go") {
				continue
			}
			ast.Inspect(f, func(n ast.Node) bool {
				ce, ok := n.(*ast.CallExpr)
				if !ok {
					return true
				}
				fn, _ := typeutil.Callee(pk.TypesInfo, ce).(*types.Func)
				if fn == nil {
					return true
				}
				ep, ok := i18nEntry[fn.FullName()]
				if !ok || ep.arg >= len(ce.Args) {
					return true
				}
				tv := pk.TypesInfo.Types[ce.Args[ep.arg]]
				if tv.Value == nil || tv.Value.Kind() != constant.String {
					nonConst++
					return true
				}
				key := constant.StringVal(tv.Value)
				if fn.FullName() == modInternal+"errors.Message" && strings.HasPrefix(key, "_") {
					// the leading underscore is the source's own mark for the flow-control signals of the
					// interpreter (continue, stop, step-over, ...): "these should not be localized"; they are not
					// messages and are exempt
					exempt++
					return true
				}
				full := ep.prefix + key
				pos := r.Prog.Fset.Position(ce.Pos())
				used[full] = append(used[full], fmt.Sprintf("%s:%d", strings.TrimPrefix(pos.Filename, r.Repo+"/"), pos.Line))
				return true
			})
		}
	}
	var usedKeys []string
	for k := range used {
		usedKeys = append(usedKeys, k)
	}
	sort.Strings(usedKeys)
	for _, k := range usedKeys {
		_, ok := table[k]
		ok = ok && strings.TrimSpace(table[k]["en"]) != ""
		ws := used[k]
		if len(ws) > 3 {
			ws = append(ws[:3], fmt.Sprintf("... %d more", len(used[k])-3))
		}
		r.table("C38/key["+k+"]", ok, "the constant message key "+strconv.Quote(k)+" used in the source has English text in the message table", strings.Join(ws, " "))
	}
	r.Notes = append(r.Notes, fmt.Sprintf("C38: %d distinct constant keys at call sites of the i18n entry points and errors.Message; %d call sites pass a non-constant key and are not checked; %d underscore-marked flow-control signals exempt", len(usedKeys), nonConst, exempt))
	return nil
}
