package main

import (
	"fmt"
	"go/token"
)

// Package-level invariants (`//@ invariant [name] expr` outside any func): a property of package
// state that holds whenever control is outside the functions that write that state.
//   - assumed at the entry of every function under contract in the package (unless `noinv`),
//   - asserted at every return of those functions,
//   - asserted before, and re-assumed after, every call that may write a location the invariant reads.
// That every writer of those locations is under contract is a `table` obligation generated per property.

func (fc *FnCtx) pkgInvs() []*Clause {
	if fc.contract.Opts["noinv"] == "true" {
		return nil
	}
	pc := fc.prog.Contracts[fc.contract.PkgPath]
	if pc == nil {
		return nil
	}
	return pc.Invariants
}

func (fc *FnCtx) invTerm(st *State, inv *Clause) Term {
	ce := &cenv{fc: fc, pkgPath: fc.contract.PkgPath, pkg: fc.prog.Pkgs[fc.contract.PkgPath], names: map[string]Term{}, st: st, old: fc.entry}
	return ce.boolExpr(inv.Expr)
}

func (fc *FnCtx) assumePkgInvs(st *State) {
	if fc.invKeys == nil {
		fc.invKeys = map[*Clause]map[any]bool{}
	}
	for _, inv := range fc.pkgInvs() {
		fc.trace = map[any]bool{}
		t := fc.invTerm(st, inv)
		fc.invKeys[inv] = fc.trace
		fc.trace = nil
		fc.assume(st, t)
		fc.assumptions[fmt.Sprintf("package invariant %q holds on entry (it is asserted at every return of every function under contract that can write the state it reads)", inv.Label)] = true
	}
}

func (fc *FnCtx) assertPkgInvs(st *State, where string, pos token.Pos) {
	for i, inv := range fc.pkgInvs() {
		t := fc.invTerm(st, inv)
		fc.assert(st, fmt.Sprintf("inv-global#%s@%s", clauseLabel(inv, i), where), "inv-global", t, pos, "invariant "+inv.Src)
	}
}

// invsTouchedBy: invariants that read any of the given keys.
func (fc *FnCtx) invsTouchedBy(keys []any) []*Clause {
	var out []*Clause
	for _, inv := range fc.pkgInvs() {
		ks := fc.invKeys[inv]
		for _, k := range keys {
			if ks[k] {
				out = append(out, inv)
				break
			}
		}
	}
	return out
}
