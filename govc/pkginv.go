package main

import (
	"fmt"
	"go/token"
)

// Package-level invariants (`//@ invariant [name] expr` outside any func): a property of package
// state that holds whenever control is outside the functions that write that state.
//   - assumed at the entry of every function under contract in the package (unless `noinv`),
//   - asserted at every return of those functions,
//   - asserted before, and re-assumed after, every call that may write a location the invariant reads.
// That every writer of those locations is under contract is a `table` obligation generated per property.

func (fc *FnCtx) pkgInvs() []*Clause {
	if fc.contract.Opts["noinv"] == "true" {
		return nil
	}
	pc := fc.prog.Contracts[fc.contract.PkgPath]
	if pc == nil {
		return nil
	}
	return pc.Invariants
}

func (fc *FnCtx) invTerm(st *State, inv *Clause) Term {
	ce := &cenv{fc: fc, pkgPath: fc.contract.PkgPath, pkg: fc.prog.Pkgs[fc.contract.PkgPath], names: map[string]Term{}, st: st, old: fc.entry}
	return ce.boolExpr(inv.Expr)
}

func (fc *FnCtx) assumePkgInvs(st *State) {
	if fc.invKeys == nil {
		fc.invKeys = map[*Clause]map[any]bool{}
	}
	for _, inv := range fc.pkgInvs() {
		fc.trace = map[any]bool{}
		t := fc.invTerm(st, inv)
		fc.invKeys[inv] = fc.trace
		fc.trace = nil
		fc.assume(st, t)
		fc.assumptions[fmt.Sprintf("package invariant %q holds on entry (it is asserted at every return of every function under contract that can write the state it reads)", inv.Label)] = true
	}
}

func (fc *FnCtx) assertPkgInvs(st *State, where string, pos token.Pos) {
	for i, inv := range fc.pkgInvs() {
		fc.assertInv(st, inv, fmt.Sprintf("inv-global#%s@%s", clauseLabel(inv, i), where), pos, "invariant "+inv.Src)
	}
}

// assertInv emits the obligation that a package invariant holds in st. When every location the invariant reads
// still has the value it had at function entry (where the invariant was assumed), the obligation is discharged
// by that observation alone and no solver is asked.
func (fc *FnCtx) assertInv(st *State, inv *Clause, name string, pos token.Pos, text string) {
	if st.dead() {
		return
	}
	if fc.invUnchanged(st, inv) {
		if fc.pass == 2 && fc.dry == 0 {
			fc.obls = append(fc.obls, &Obligation{Name: fc.name + "/" + name, Class: "inv-global", Func: fc.name, Pos: fc.posStr(pos), Text: text, Answer: "unsat", Backend: "frame", Output: "every location the invariant reads is unchanged since function entry, where it was assumed"})
		}
		return
	}
	fc.assert(st, name, "inv-global", fc.invTerm(st, inv), pos, text)
}

// invUnchanged: all state keys the invariant reads have, in st, the very terms they had at entry.
func (fc *FnCtx) invUnchanged(st *State, inv *Clause) bool {
	ks := fc.invKeys[inv]
	if len(ks) == 0 || fc.entry == nil {
		return false
	}
	for k := range ks {
		a, ok1 := st.vars[k]
		b, ok2 := fc.entry.vars[k]
		if !ok1 || !ok2 || a.S != b.S {
			return false
		}
	}
	return true
}

// invsTouchedBy: invariants that read any of the given keys.
func (fc *FnCtx) invsTouchedBy(keys []any) []*Clause {
	var out []*Clause
	for _, inv := range fc.pkgInvs() {
		ks := fc.invKeys[inv]
		for _, k := range keys {
			if ks[k] {
				out = append(out, inv)
				break
			}
		}
	}
	return out
}
