package main

import (
	"fmt"
	"go/types"
	"strings"
)

// Sorts are SMT-LIB sort texts.
const (
	SBool = "Bool"
	SInt  = "Int"
	SStr  = "Str"
	SFlt  = "Flt"
)

func sliceSort(elem string) string { return "(Slice " + elem + ")" }
func isSliceSort(s string) bool    { return strings.HasPrefix(s, "(Slice ") }
func sliceElemSort(s string) string {
	return strings.TrimSuffix(strings.TrimPrefix(s, "(Slice "), ")")
}
func arraySort(idx, elem string) string { return "(Array " + idx + " " + elem + ")" }

// Term is an SMT term with its sort and (when known) the Go type it stands for.
type Term struct {
	S    string
	Sort string
	T    types.Type
}

func (t Term) String() string { return t.S }

func mk(sort string, typ types.Type, format string, args ...any) Term {
	return Term{S: fmt.Sprintf(format, args...), Sort: sort, T: typ}
}

var (
	tTrue  = Term{S: "true", Sort: SBool, T: types.Typ[types.Bool]}
	tFalse = Term{S: "false", Sort: SBool, T: types.Typ[types.Bool]}
)

func boolT(s string) Term { return Term{S: s, Sort: SBool, T: types.Typ[types.Bool]} }
func intT(s string) Term  { return Term{S: s, Sort: SInt, T: types.Typ[types.Int]} }
func intLit(n int64) Term {
	if n < 0 {
		return intT(fmt.Sprintf("(- %d)", -n))
	}
	return intT(fmt.Sprintf("%d", n))
}

func tNot(a Term) Term {
	switch a.S {
	case "true":
		return tFalse
	case "false":
		return tTrue
	}
	return boolT("(not " + a.S + ")")
}

func tAnd(ts ...Term) Term {
	var parts []string
	for _, t := range ts {
		if t.S == "true" {
			continue
		}
		if t.S == "false" {
			return tFalse
		}
		parts = append(parts, t.S)
	}
	switch len(parts) {
	case 0:
		return tTrue
	case 1:
		return boolT(parts[0])
	}
	return boolT("(and " + strings.Join(parts, " ") + ")")
}

func tOr(ts ...Term) Term {
	var parts []string
	for _, t := range ts {
		if t.S == "false" {
			continue
		}
		if t.S == "true" {
			return tTrue
		}
		parts = append(parts, t.S)
	}
	switch len(parts) {
	case 0:
		return tFalse
	case 1:
		return boolT(parts[0])
	}
	return boolT("(or " + strings.Join(parts, " ") + ")")
}

func tImp(a, b Term) Term {
	if a.S == "true" {
		return b
	}
	if a.S == "false" || b.S == "true" {
		return tTrue
	}
	return boolT("(=> " + a.S + " " + b.S + ")")
}

func tEq(a, b Term) Term {
	if a.S == b.S {
		return tTrue
	}
	if isNumeral(a.S) && isNumeral(b.S) {
		return tFalse // two different integer literals
	}
	return boolT("(= " + a.S + " " + b.S + ")")
}

func tIte(c, a, b Term) Term {
	if c.S == "true" {
		return a
	}
	if c.S == "false" {
		return b
	}
	if a.S == b.S {
		return a
	}
	t := a.T
	if t == nil {
		t = b.T
	}
	return Term{S: "(ite " + c.S + " " + a.S + " " + b.S + ")", Sort: a.Sort, T: t}
}

// sortOf maps a Go type to the SMT sort used to represent its values.
func sortOf(t types.Type) string {
	if t == nil {
		return SInt
	}
	switch u := t.Underlying().(type) {
	case *types.Basic:
		switch {
		case u.Info()&types.IsBoolean != 0:
			return SBool
		case u.Info()&types.IsString != 0:
			return SStr
		case u.Info()&types.IsFloat != 0, u.Info()&types.IsComplex != 0:
			return SFlt
		}
		return SInt
	case *types.Slice:
		return sliceSort(sortOf(u.Elem()))
	case *types.Array:
		return sliceSort(sortOf(u.Elem()))
	}
	// pointers, maps, chans, funcs, interfaces, structs (boxed): Int references.
	return SInt
}

func isStructVal(t types.Type) bool {
	if t == nil {
		return false
	}
	if isTimeType(t) {
		return false
	}
	_, ok := t.Underlying().(*types.Struct)
	return ok
}

func isTimeType(t types.Type) bool {
	n, ok := t.(*types.Named)
	if !ok {
		if a, ok2 := t.(*types.Alias); ok2 {
			return isTimeType(types.Unalias(a))
		}
		return false
	}
	return n.Obj().Pkg() != nil && n.Obj().Pkg().Path() == "time" && n.Obj().Name() == "Time"
}

func isInterface(t types.Type) bool {
	if t == nil {
		return false
	}
	_, ok := t.Underlying().(*types.Interface)
	return ok
}

func isUnsigned(t types.Type) bool {
	b, ok := t.Underlying().(*types.Basic)
	return ok && b.Info()&types.IsUnsigned != 0
}

func isIntegerType(t types.Type) bool {
	if t == nil {
		return false
	}
	b, ok := t.Underlying().(*types.Basic)
	return ok && b.Info()&types.IsInteger != 0
}

// intRange returns lo, hi bounds for sized integer kinds (ok=false for int/int64/uint64/uint which are left mathematical apart from sign).
func intRange(t types.Type) (lo, hi string, ok bool) {
	b, isb := t.Underlying().(*types.Basic)
	if !isb {
		return
	}
	switch b.Kind() {
	case types.Int8:
		return "(- 128)", "127", true
	case types.Int16:
		return "(- 32768)", "32767", true
	case types.Int32:
		return "(- 2147483648)", "2147483647", true
	case types.Uint8:
		return "0", "255", true
	case types.Uint16:
		return "0", "65535", true
	case types.Uint32:
		return "0", "4294967295", true
	case types.Uint, types.Uint64, types.Uintptr:
		return "0", "", true
	}
	return
}

func smtIdent(s string) string {
	var b strings.Builder
	for _, r := range s {
		switch {
		case r >= 'a' && r <= 'z', r >= 'A' && r <= 'Z', r >= '0' && r <= '9', r == '_', r == '.', r == '!', r == '$':
			b.WriteRune(r)
		default:
			b.WriteRune('_')
		}
	}
	return b.String()
}

func isNumeral(s string) bool {
	if s == "" {
		return false
	}
	for _, c := range s {
		if c < '0' || c > '9' {
			return false
		}
	}
	return true
}
