package main

func c34Extra(r *Run) error {
	r.boundedGoTest("C34-corpus", "the reference tokenizer gives the same token sequence for a generated stylesheet and for its minified form, up to comments, insignificant white space and redundant semicolons",
		"13 base stylesheets (selectors with every combinator, pseudo-classes, escaped delimiters, attribute selectors, at-rules, strings with escapes and comment-like content, quoted and unquoted url( ) with /* inside, calc, custom properties) x every token boundary x 12 fillers (nothing, white space, comments with and without white space around them, comments holding ; } ' \"), plus every white-space token replaced by a comment: about 6 700 stylesheets")
	return nil
}
