package main

import "os"

func c34Extra(r *Run) error {
	os.Setenv("GOVC_TIER", r.Tier)
	r.boundedGoTest("C34-corpus", "the reference tokenizer gives the same token sequence for a generated stylesheet and for its minified form, up to comments, insignificant white space and redundant semicolons",
		"13 base stylesheets (selectors with every combinator, pseudo-classes, escaped delimiters, attribute selectors, at-rules, strings with escapes and comment-like content, quoted and unquoted url( ) with /* inside, calc, custom properties) x every token boundary x 12 fillers (nothing, white space, comments with and without white space around them, comments holding ; } ' \"), plus every white-space token replaced by a comment: about 7 000 stylesheets; thorough tier: also every pair of boundaries x 4 x 4 fillers, about 190 000 stylesheets")
	return nil
}

// c19Extra: a bounded corpus beside the proof, so that a rewrite of the scanner that no longer has the flags the
// invariant names (the contract then cannot be bound: undecided) is still confronted with generated JSON texts.
func c19Extra(r *Run) error {
	r.boundedGoTest("C19-corpus", "JSONMinify(MarshalIndent(v)) decodes to v and holds no white space outside strings",
		"every string of up to three pieces from {backslash, quote, space, two spaces, tab, newline, a, : , { } [ ] é, escaped backslash, escaped quote} as a value, as a key and inside an array, x three indentations: about 39 000 JSON texts")
	return nil
}

// c14Extra: the battery of adversarial filter values runs with every check, not only as a replay.
func c14Extra(r *Run) error {
	r.boundedGoTest("C14-battery", "adversarial filter values through the real translator: no SQL outside a string literal or quoted identifier, every literal closed (a refusal is fine)",
		"18 first values (quotes at either end, runs of quotes, backslash-quote, comment marks) x 4 second values carrying OR 1=1 x 3 filter shapes, and 6 filter lists with single-quoted value tokens, signed strings and 62-byte names")
	return nil
}

// c20Extra: generated route declarations served by the real router for every credential form (bounded stand-in).
func c20Extra(r *Run) error {
	r.boundedGoTest("C20-battery", "for every generated route declaration and credential form, the handler runs only when the declaration's requirements (read off the builder calls: a declared permission stays declared; authentication as the last call that speaks of it says) are met by the identity the credential proves, and an authenticated session carries that identity",
		"every sequence of up to 2 (thorough: 3) builder calls out of Authentication(true/false), Permissions(a), Permissions(b), Permissions(), LightWeight(true/false): 57 (400) routes x 15 header forms (none; valid tokens of 5 users; tampered after the genuine one was cached; expired; revoked; garbage; JWT-shaped; malformed / colon-less / empty-password Basic; unknown scheme) plus 5 password forms")
	return nil
}

// c29Extra: the broadcast reads the membership itself, at the time of the purge, and is the only sender of flushes.
func c29Extra(r *Run) error {
	cl := modInternal + "server/cluster"
	r.census("C29/active-members-read-census", cl+".ListActiveMembers", 0, "", cl+".BroadcastCacheFlush", cl+".StartHealthChecker")
	r.census("C29/flush-send-census", cl+".SendCacheFlush", 0, "", cl+".BroadcastCacheFlush")
	return nil
}
