package main

// PropSpec says what a property check loads and how its evidence is labelled.
type PropSpec struct {
	Patterns    []string
	Level       string // proof | other
	Explanation string
	TrustedBase []string
	Assumptions []string
	Extra       func(r *Run) error
}

var propSpecs = map[string]*PropSpec{
	"C27": {
		Patterns: []string{"./..."},
		Level:    "proof",
		Explanation: "contracts on util.Encrypt/Decrypt and helpers: a nil error implies the AEAD opened the ciphertext under a key derived from the passphrase; every slice in bounds",
		TrustedBase: []string{"AES-GCM authenticity (crypto/cipher AEAD.Open succeeds only for a genuine (key, nonce, ciphertext) triple)", "argon2/pbkdf2/md5 key derivations are functions of (passphrase, salt)"},
	},
}
