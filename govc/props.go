package main

// PropSpec says what a property check loads and how its evidence is labelled.
type PropSpec struct {
	Patterns    []string
	Level       string // proof | other
	Explanation string
	TrustedBase []string
	Assumptions []string
	Extra       func(r *Run) error
	Sweep       []string // package path prefixes of the no-panic sweep (ledger properties)
}

var propSpecs = map[string]*PropSpec{
	"C43": {
		Patterns:    []string{"./..."},
		Level:       "proof",
		Explanation: "tables.Authorized returns true only for the administrator short-cut, an unrestricted DSN, an unavailable permission store, or exactly one grant row for (dsn, table, user) that allows every requested operation; the row and table handlers reach their first row statement on a restricted DSN only for an administrator or after Authorized said yes for (this user, this DSN.table, the handler's operation)",
		TrustedBase: []string{"the permission store returns exactly the rows matching the three equality filters (resources.ResHandle, C30)", "dsns service returns the DSN record (its cache is kept honest by one structural obligation: every writer of the dsns table drops the cached record first)"},
		Extra:       c43Extra,
	},
	"C24": {
		Patterns:    []string{"./..."},
		Level:       "proof",
		Explanation: "the limiter's operations (CheckRateLimit, RecordFailure, RecordSuccess, pruneLoginAttempts) are under functional contracts over the map account -> (failures, lockedUntil), frame included (other accounts untouched), with the account being the lower-cased user name auth.ValidatePassword looks up; both login paths (router Authenticate, OAuth authorize form) check a password only after the limiter allowed that account and report every outcome to it for the same account",
		TrustedBase: []string{"time.Now is monotone (ghost clock)", "settings.Get/GetInt are read once per operation (cfgMax/cfgLockout are the values read)", "sync.Mutex gives mutual exclusion: the contracts are sequential (the concurrent histories of the property are not covered)"},
		Extra:       c24Extra,
	},
	"C17": {
		Patterns:    []string{"./..."},
		Level:       "proof",
		Explanation: "typestate contracts on database.Begin/Commit/Rollback/Close (transaction open <=> d.Transaction != nil; ghost counters of successful commits and rollbacks) and anchored assertions at every return of scripting.Handler: nothing left open, success reported only after a successful commit of all-successful operations, nothing committed on a reported failure",
		TrustedBase: []string{"database/sql: Tx.Commit / Tx.Rollback end the transaction when they return nil; SQLite/Postgres atomicity of a committed or rolled-back transaction", "faults of Rollback itself are outside the property's quantifier (assumed to succeed at the handler's call sites)"},
		Extra:       c17Extra,
	},
	"C20": {
		Patterns:    []string{"./..."},
		Level:       "proof",
		Explanation: "router.ServeHTTP reaches the handler dispatch only when the route's authentication requirement and every required permission have been checked for the authenticated identity",
		Extra:       c20Extra,
	},
	"C22": {
		Patterns:    []string{"./..."},
		Level:       "proof",
		Explanation: "oauth.ValidateJWT returns a nil error only for a token whose signature the JWT library verified with a key the keyfunc returned (the keyfunc is under contract: published JWKS keys only, ECDSA/RSA only), with expiry required and in the future, issuer/audience options set from the configuration, and whose jti was looked up in the revocation list on this call; every entry put into OAuthJWTCache satisfied that at insertion",
		TrustedBase: []string{"golang-jwt/v5 ParseWithClaims verifies the signature with the key returned by the keyfunc and enforces the parser options", "JWKS document fetch and JWK parsing (parseECPublicKey/parseRSAPublicKey yield published keys)", "tokens.IsIDBlacklisted answers for the revocation list (C21)", "caches.Find/Add for OAuthJWTCache: entry invariant established at insertion (call-site census + immutability of JWTCacheEntry fields are table obligations)"},
		Extra:       c22Extra,
	},
	"C25": {
		Patterns:    []string{"./..."},
		Level:       "proof",
		Explanation: "auth.ValidatePassword returns true iff the user exists, the password matches the stored credential in its format (bcrypt / braced plaintext when enabled / SHA-256), and the user may log on; the migration write stores a bcrypt hash of the accepted password",
		TrustedBase: []string{"bcrypt.CompareHashAndPassword / GenerateFromPassword agree (bcryptOK)", "the user store returns the stored record (userIOService is an interface; the stores themselves are C30/C31; the database store's cache is kept honest by one structural obligation on its writers)"},
		Extra:       c25Extra,
	},
	"C29": {
		Patterns:    []string{"./..."},
		Level:       "proof",
		Explanation: "per-node contracts: a purge that originates on a node fires the broadcast hook exactly once and a purge applied for a peer never does (caches.purge/Purge/PurgeLocal); a broadcast asks every active peer other than this node exactly once (ListActiveMembers is the filter of the member list, BroadcastCacheFlush calls SendCacheFlush once per peer with the cache id and the origin hop count, SendCacheFlush issues at most one request, to that peer); the flush handler discards the named cache and sends nothing (no hook firing, no SendCacheFlush, no request)",
		TrustedBase: []string{"the cluster table read by ListMembers is the membership (database/sql)", "net/http delivers or loses a request (message delays/drops are outside the contracts)", "the hook OnPurge is BroadcastCacheFlush in cluster mode (cluster.Initialize) and nil otherwise"},
		Extra:       c29Extra,
	},
	"C28": {
		Patterns:    []string{"./..."},
		Level:       "proof",
		Explanation: "the cache operations (Add, Find, Delete, purge/Purge/PurgeLocal/PurgeAll, SetExpiration, sweepExpired, newCache, Size, Active, notifyEvictions) are under functional contracts over the abstract state cache id -> (key -> (data, expires), lifetime, limit), frames included (other keys and other caches untouched), with representation invariants (entries within the limit, entry maps not shared, the configured lifetime in force) and the lock discipline of the cache table (touched only under cacheLock, written only under the write lock, one critical section per operation, evictions reported after the lock is released)",
		TrustedBase: []string{"sync.RWMutex gives mutual exclusion: each operation's effect lies in one critical section, so the sequential contracts describe a linearisation (standard argument, not machine-checked); interleavings themselves are not explored", "Go's range over a map visits every key present exactly once (engine's map-range model)", "time.Now is monotone (ghost clock); time.ParseDuration of the default string is the default lifetime", "the eviction listener is read once per operation (watchingEvictions); a listener registered in between is not covered"},
		Extra:       c28Extra,
	},
	"C39": {
		Patterns:    []string{"./..."},
		Level:       "proof",
		Explanation: "assets.AssetsHandler, Loader, readAssetRange, readAssetFile, normalizeAssetPath and the asset cache (lookupCachedAsset, cacheAsset, normalizeCachePath, FlushAssetCache) are under contract in safe mode: every index, slice and make in bounds for every Range header and file size; a 206 reply's Content-Range is (start, start+len(body)-1, total size) with the body exactly that many bytes; every file-system call receives a path that lies lexically under the asset root (or the fixed refusal name); a cache hit returns the bytes stored for exactly the requested name",
		TrustedBase: []string{"(*os.File).ReadAt fills the buffer when the range lies inside the file; os.Stat reports the size of the file that is then read (no concurrent truncation)", "lexical confinement: strings.HasPrefix(filepath.Clean(...), root + separator); symbolic links under the asset root are the administrator's (not covered)", "servedBytes(name) is what the loader produced from the file when it read it (definitional; files changing on disk afterwards are outside the model)", "javascript.Minify / MinifyCSS are the documented minification (C33/C34)"},
		Extra:       c39Extra,
	},
	"C21": {
		Patterns:    []string{"./..."},
		Level:       "proof",
		Explanation: "tokens.Unwrap/Validate accept only a token that decrypts under the current key, has not expired and is not on the revocation list now; the revocation list operations (Blacklist, Delete, Flush, IsBlacklisted, IsIDBlacklisted) are under contract over the table's content (revokedAt at the current epoch) and preserve two coherence invariants: every entry of the revocation cache says what the table says, and no locally issued token held in the decrypted-token cache is revoked (and each carries its expiry); router Authenticate fills the token cache only with tokens that just unwrapped and on a cache hit re-checks expiry; with the invariants, a cached decision is the decision a fresh validation would make",
		TrustedBase: []string{"the revocation table behind resources.ResHandle behaves as a keyed row set (anchored assumptions at Insert/Delete/Read say what the store did; C30)", "AES-GCM authenticity: 'issued by this server with its current key and not altered' is decryptsUnder (C27)", "removal of cache entries by expiry, eviction or purge preserves both invariants (they constrain entries that are present); caches.* contracts from C28", "configuration-time functions tokens.SetDatabasePath/Close are outside the histories considered", "remote-authority tokens (ego.server.authority set) are the authority's to expire and revoke"},
		Extra:       c21Extra,
	},
	"C23": {
		Patterns:    []string{"./..."},
		Level:       "proof",
		Explanation: "consumeCode / consumeRefreshToken report success only when their own caches.Delete of the very key they looked up returned true, verified under interference (the cache may change arbitrarily between the lookup and the delete): Delete removes the entry and reports whether it was there in one critical section (C28), so of any number of concurrent presentations exactly one succeeds; verifyPKCE returns nil exactly when there is no challenge or the method is S256 and the S256 transform of the verifier equals the challenge; the token endpoint mints access, ID and refresh tokens for a code only after consuming that code and verifying PKCE with the verifier presented, for the client and redirect URI the code was issued to (a public client's code must carry a challenge), and for a refresh token only after consuming it",
		TrustedBase: []string{"caches.Delete is atomic under the cache lock (C28 contracts and lock discipline)", "challengeOf(v) is BASE64URL(SHA256(v)): crypto/sha256 and encoding/base64 (asserted to be applied to the verifier)", "codes and refresh tokens are freshly generated random keys (crypto/rand)"},
		Extra:       c23Extra,
	},
	"C44": {
		Patterns:    []string{"./..."},
		Level:       "proof",
		Explanation: "the responses that can carry a stored secret are guarded sinks: the two configuration handlers never read the value of a secret item (token, token key, logon and refresh tokens, anything named password / credential / secret) for a response and every such item in the response carries the elision marker (loop invariant over the items); every util.WriteJSON call in the module whose body type can hold a password- or secret-named string field (found from go/types on every run) is under an assertion that the field holds an elision marker: the user handlers, the DSN handlers, and the DSN list through the contract of both DSN services' ListDSNS (loop invariants)",
		TrustedBase: []string{"responses are written through util.WriteJSON (other writers of response bodies are not scanned)", "secrets echoed in error messages or served by the log endpoint are not covered", "OAuth client registrations and signing keys are not serialised through a type with a secret-named field on any WriteJSON path found; their endpoints are otherwise not covered"},
		Extra:       c44Extra,
	},
	"C36": {
		Patterns:    []string{"./..."},
		Level:       "proof",
		Explanation: "rewriteFile is verified against a ghost file system of the three names a rewrite touches (the message file, this run's temporary file, the backup name): each operating-system call updates the ghost contents by its trusted meaning (os.Rename atomic), and after every call that changes the file system the crash invariant 'the path holds the complete original or the complete new content' is asserted, which is the crash-point quantifier of the statement; calls that are not atomic (write, create, truncating open) are asserted never to be aimed at the path; on success the path holds the new content and this run leaves no file of its own behind, on failure the original; lintFile is asserted to clear an interrupted run's leftovers on every successful writing run, and removeLeftovers to remove only names with the langlint prefix; a table obligation keeps every file-system-changing call of the package inside these functions",
		TrustedBase: []string{"os.Rename replaces the destination atomically (rename(2)); a crash during any other call does not touch a file the call is not aimed at", "os.CreateTemp returns a fresh name different from the path and the backup name", "a complete Write to a freshly created file gives it exactly the new content", "os.ReadDir lists the directory (removeLeftovers removes every name it lists with the prefix)", "durability (fsync) is not part of the statement and not modelled"},
		Extra:       c36Extra,
	},
	"C19": {
		Patterns:    []string{"./..."},
		Level:       "proof",
		Explanation: "JSONMinify against the RFC 8259 string lexer as a ghost automaton: inductive invariant 'the code's flags agree with the automaton' and, per character, 'copied once unchanged unless white space outside a string'; WriteJSON hands the writer exactly the minified (or unminified) marshalled text of the handler's value; WriteMaybeCompressed sends the body or its announced gzip",
		TrustedBase: []string{"encoding/json.MarshalIndent emits a JSON text (no backslash outside a string)", "RFC 8259 §2: white space between tokens is insignificant", "compress/gzip round trip", "unicode.IsSpace is false of '\"' and '\\'"},
		Extra:       c19Extra,
	},
	"C38": {
		Patterns:    []string{"./..."},
		Level:       "other",
		Explanation: "ground obligations regenerated on every run from /repo's current source and language files: (1) every key of the message table has English text; (2) every translation in every shipped language is non-empty and uses exactly the placeholders of the English text; (3) every compile-time-constant key at a call site of i18n.T/Text/L/LLang/M/MLang/E/ELang and errors.Message, with the prefix that entry point adds (checked against the source), has English text in the table; plus one deductive contract: NegotiateLanguage returns the empty string or a language isSupportedLanguage accepts, in safe mode (every index and slice in bounds for every Accept-Language header)",
		TrustedBase: []string{"tools/lang builds the table the program is compiled with (the same generated messages.go is used here)", "call sites that pass a non-constant key are counted and not checked", "keys marked with a leading underscore in errors.Message are the interpreter's flow-control signals, not messages (the source says so)", "isSupportedLanguage is a function of the table during one call"},
		Extra:       c38Extra,
	},
	"C37": {
		Patterns:    []string{"./..."},
		Level:       "proof",
		Explanation: "FormatDuration's printed day, hour, minute and second counts are the mixed-radix digits of |d| in whole seconds, in range, with a minus sign exactly for negative durations (proved for every duration); the string round trip through ParseDuration is a bounded stand-in reported under coverage.bounded and not counted in discharged",
		TrustedBase: []string{"the integer part of Duration.Hours/Minutes/Seconds is the exact integer quotient", "fmt %d prints the integer it is given", "ParseDuration: bounded enumeration only (see coverage.bounded)"},
		Extra:       c37Extra,
	},
	"C32": {
		Patterns:    []string{"./..."},
		Level:       "proof",
		Explanation: "every return of FindRoute that picks one of several candidates by a first-match scan is reached only after sortCandidates put the candidates (collected in map order) into the canonical order; when candidates differ in their number of path variables the route returned has the fewest (inductive invariant over the counting loop); Route.Lock returns the route it was given; structural table obligation: one map range, nothing carried between its iterations but the list, no clock or random source",
		TrustedBase: []string{"sort.Slice orders the slice by the comparison it is given; sortCandidates' comparison (endpoint length, endpoint, any-method last, method) is a strict total order on routes because endpoint and method together are the key of the route table", "meta-lemma: a deterministic scan over a canonically ordered list of a set is a function of the set", "the per-route matching block reads only the route, the method and the path (structural obligation)"},
		Extra:       c32Extra,
	},
	"C09": {
		Patterns:    []string{"./..."},
		Level:       "other",
		Explanation: "every go statement of the module is found on every run and must be of a known kind (program, once, stopped, oneshot, bounded, startup, cli); for once / stopped / oneshot the code around the statement is checked for the pattern that bounds the goroutine's life (sync.Once.Do or a package-level guard set in the same block; a deferred close, at the top level of the starter, of a channel the goroutine waits on; a single final send on a channel of capacity >= 1)",
		TrustedBase: []string{"a goroutine that waits in a select on a closed channel returns; a send on a channel with free capacity does not block", "per-site arguments for the kinds bounded, startup and cli (listed in govc/c09.go)", "no thread semantics: nothing here is a statement about schedules"},
		Extra:       c09Extra,
	},
	"C40": {
		Patterns:    []string{"./..."},
		Level:       "proof",
		Explanation: "partial: the committed ledger of no-panic sites (index, slice bounds, make sizes, map stores, integer division) in internal/router, internal/server/** and internal/util that a contract-free safe-mode sweep proved for all inputs is re-proved on the current tree (a site that stops discharging is a violation; a site whose expression is gone is undecided); plus safe-mode contracts on handlers found to index request-derived strings (tables.GrantPermissions / validPermissions); functions under contract for other properties carry their own safe obligations there",
		TrustedBase: []string{"nil dereferences, unchecked type assertions and everything the sweep never proved are NOT claimed (counts in the evidence notes; ledger/C40.open.txt lists the sites left open)", "each function is swept on its own with unconstrained parameters (a non-nil receiver only): sites that need a caller's guarantee are left open, not assumed", "panics inside callees (library code, other packages) are outside each site's obligation"},
		Sweep:       []string{modInternal + "router", modInternal + "server/", modInternal + "util", modInternal + "validate", modInternal + "dsns", modInternal + "resources", modInternal + "language/tokens", modInternal + "caches"},
		Extra:       ledgerExtra,
	},
	"C03": {
		Patterns:    []string{"./..."},
		Level:       "proof",
		Explanation: "partial: for the arithmetic opcodes (add, subtract, multiply, divide, modulo, the fused increment, negate) every numeric kind the language reference prescribes has a case in the dispatch, each case asserts both operands to its own kind and computes with the opcode's own operator in operand order (a zero divisor is refused first), Increment handles exactly what Add handles, and the step the compiler pushes for x++ / x-- is the untyped constant 1 (structural obligations from go/types on every run); the opcodes hand data.Normalize the constness of each operand and the type mode, and apply the strict-mode kind check exactly when neither operand is a constant (anchored assertions, deductive)",
		TrustedBase: []string{"data.Coerce / CoerceLossless convert values as documented (not under contract: no bit-vector mode in the engine; exercised by the bounded matrix); data.Normalize decides which operand is converted and is under a path contract", "Go's own arithmetic on the asserted operand types is the fixed-width arithmetic of the language reference", "float and complex value semantics are not modelled"},
		Extra:       c03Extra,
	},
	"C34": {
		Patterns:    []string{"./..."},
		Level:       "proof",
		Explanation: "javascript.MinifyCSS under an accounting contract in safe mode: every index and slice is in bounds for every input; at the head of the main loop every byte of the input before the cursor has been copied to the output, in order and unchanged, or was legitimately left out -- a comment up to its first closing mark, a run of white space, a semicolon that another semicolon follows or that only white space separates from a closing brace; the only bytes inserted are one space in place of a run of white space (exactly when the run is not at the start, not before a delimiter and not after an unescaped delimiter or colon) and an empty comment in place of a comment (exactly when neither neighbour ends or starts a token by itself); escape pairs, string contents and unquoted url( ) tokens are copied whole; cssIsWS, cssIsDelim, cssEndsToken, cssStartsToken are verified against the sets the contract names",
		TrustedBase: []string{"which bytes form comments, strings, escapes and url( ) tokens is decided by the code's own branch structure; the independent CSS Syntax Level 3 tokenizer is applied only by the bounded corpus", "CSS Syntax Level 3: white space next to { } ; , > and after : never separates tokens or forms a combinator; a semicolon before } or another ; is redundant", "slices have value semantics in the engine: that MinifyCSS does not write into its input is checked by the bounded corpus only", "strings are terminated on their line (an unterminated string is outside the quantifier)"},
		Extra:       c34Extra,
	},
	"C07": {
		Patterns:    []string{"./..."},
		Level:       "proof",
		Explanation: "partial: (1) the tokenizer's cursor API (Next, NextText, Peek, PeekText, Advance, CurrentLine, CurrentColumn, Set, Reset, Delete, Insert) is under safe-mode contracts with the representation invariant 'the cursor is never negative' (every function of the module that assigns Tokenizer.TokenP keeps it, table obligation), so every index into the token list is in bounds for every token list, cursor and argument; (2) the ledger of the index / slice / make / division / type-assertion / nil-map-store sites that a contract-free safe-mode sweep proved panic-free for every input in internal/language/tokenizer, compiler and bytecode is re-proved on every run, and in every function of those packages in which the sweep proved every site ('closed'), a site that is new and refuted is a violation",
		TrustedBase: []string{"sites the sweep could not prove on their own (they need a caller's guarantee, or the solver gave up) are NOT claimed: ledger/C07.open.txt; six functions too large to lower in the memory available (the interpreter's dispatch table and five compiler functions) are not attempted; the property as a whole (no source text crashes the host) is not decided", "nil dereferences are not claimed", "each function is swept on its own with unconstrained parameters (a non-nil receiver only)", "the sweep also covers the builtins, the runtime packages strings, util, strconv, math, sort, fmt, time, json, base64, reflect, errors, filepath, and the data and symbols packages"},
		Sweep:       []string{modInternal + "language/tokenizer", modInternal + "language/compiler", modInternal + "language/bytecode", modInternal + "builtins", modInternal + "runtime/strings", modInternal + "runtime/util", modInternal + "runtime/strconv", modInternal + "runtime/math", modInternal + "runtime/sort", modInternal + "runtime/fmt", modInternal + "runtime/time", modInternal + "runtime/json", modInternal + "runtime/base64", modInternal + "runtime/reflect", modInternal + "runtime/errors", modInternal + "runtime/filepath", modInternal + "language/data", modInternal + "language/symbols"},
		Extra:       c07Extra,
	},
	"C14": {
		Patterns:    []string{"./..."},
		Level:       "proof",
		Explanation: "partial (the filter parameter's value and name leaves only): parsing.SQLEscape hands back, with a nil error, only text it wrote rune by rune and never writes a single quote, a double quote or a semicolon, for every input string; filterClause's leaf passes the token spelling to SQLEscape and, when that succeeds, emits the screened text itself, '<text>', the Go quoting of it, or the SQL identifier quoting of it, and nothing else",
		TrustedBase: []string{"lexical lemma (SQL): a string literal whose body holds no quote, and a delimited identifier whose body holds no double quote, is one token whatever follows it", "strings.Builder returns what was written to it", "NOT covered: raw leaves (numbers, NULL, operators) beyond the screen for quotes and semicolons, the composition of clauses, column lists, sort lists, paging values, table names, row payloads, and that the rows selected are the ones the filter means -- the property as a whole is not decided", "a rewrite of SQLEscape that no longer goes through the builder would be reported although it might be correct (the contract follows the implementation's shape here)"},
		Extra:       c14Extra,
	},
	"C15": {
		Patterns:    []string{"./..."},
		Level:       "proof",
		Explanation: "both SQL endpoints run a statement only after every table usage sqlparse.Tables() reports was answered yes by the check matching its usage (read -> ego.table.read, write -> the permission of the statement's verb, admin -> DSN-administrator authority) and, for every schema-changing verb, DSN-administrator authority was confirmed (loop contracts on authorizeStatement / authorizeAndClassifySQL and their callers); Tables() itself is decided structurally from go/types on every run: every node-bearing field of every AST type is handed to nodes() by that type's Children(), every node-bearing field of every statement type is walked or recorded by Tables() (or is on the justified exemption list), the walk's callback records every TableRef unconditionally; a bounded corpus of generated statements cross-checks Tables() against a reflection walk on the real code",
		TrustedBase: []string{"the SQL parser accepts exactly one statement and the text executed is the text parsed (Format preserves the statement: C16)", "ast.Walk visits every node Children() yields and nodes() keeps every non-nil Node and []Node argument (exercised by the bounded corpus, not proved)", "exempt expression positions (CREATE TABLE column and table constraints, ALTER TABLE actions, CREATE INDEX columns): SQLite and PostgreSQL reject subqueries there and the statement needs DSN-administrator authority anyway", "Authorized answers for the grant table (C43)"},
		Extra:       c15Extra,
	},
	"C26": {
		Patterns:    []string{"./..."},
		Level:       "proof",
		Explanation: "every file-system call of the runtime os, io and json packages receives a name that came out of the sandbox join whenever the program is sandboxed and a root is configured (anchored assertions at every sink, discharged deductively from the contracts of the per-package sandboxName helpers); a context switched to sandboxed mode has a root configured; native pass-through declarations of file functions declare their string parameters Sandboxed and the native-call rewriting joins whenever a root is configured; util.SandboxJoin / resolveWithinSandbox / withinRoot are under path contracts: every value returned is the root itself or was accepted by the lexical check and, after symbolic links in its existing prefix were resolved, by the check against the resolved root; a census from go/types on every run finds every sink call in the runtime packages, the builtins and the interpreter, and each must be under such a contract or on the list of names the program does not supply",
		TrustedBase: []string{"filepath.Clean / Join / Rel / Dir / Abs / EvalSymlinks and os.Lstat mean what their documentation says; the meta-lemma that a path whose longest existing prefix resolves inside the resolved root, extended by components that do not exist, resolves inside the root", "settings.Get, data.String, data.BoolOrFalse are functions of their arguments during one runtime call", "the sandboxed-I/O symbol of the symbol table is the flag Context.Sandboxed set (symbols.SymbolTable.Get, trusted contract)", "time of check versus time of use (a link swapped between the join and the open) is a schedule and is not covered", "the compiler's import path handling and the server's own file handling are outside the scope of the census (the property is about runtime functions)"},
		Extra:       c26Extra,
	},
	"C27": {
		Patterns: []string{"./..."},
		Level:    "proof",
		Explanation: "contracts on util.Encrypt/Decrypt and helpers: a nil error implies the AEAD opened the ciphertext under a key derived from the passphrase; every slice in bounds",
		TrustedBase: []string{"AES-GCM authenticity (crypto/cipher AEAD.Open succeeds only for a genuine (key, nonce, ciphertext) triple)", "argon2/pbkdf2/md5 key derivations are functions of (passphrase, salt)"},
	},
}
