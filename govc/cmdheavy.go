package main

import (
	"fmt"
	"strings"
	"go/types"
	"os"
	"sort"
)

// govc heavy: debugging aid: why is each "heavy" callback method heavy?
func cmdHeavy(args []string) int {
	scratch, _ := os.MkdirTemp("", "govc-heavy-")
	defer os.RemoveAll(scratch)
	prog, err := LoadProgram("/repo", scratch, []string{"./..."})
	if err != nil {
		fmt.Println(err)
		return 2
	}
	f := BuildFrame(prog)
	var names []string
	fnMode := len(args) > 1 && args[0] == "fn"
	for fn, n := range f.nodes {
		if fnMode {
			if !strings.HasSuffix(fn.FullName(), args[1]) {
				continue
			}
		} else {
			if fn.Type().(*types.Signature).Recv() == nil || !f.heavyNames[fn.Name()] {
				continue
			}
			if len(args) > 0 && fn.Name() != args[0] {
				continue
			}
		}
		// find a reason
		seen := map[*fnode]bool{n: true}
		type item struct {
			n    *fnode
			path string
		}
		stack := []item{{n, n.name()}}
		reason := ""
		for len(stack) > 0 && (reason == "" || fnMode) {
			if fnMode && reason != "" {
				names = append(names, reason)
				reason = ""
			}
			c := stack[len(stack)-1]
			stack = stack[:len(stack)-1]
			pkgOf := ""
			if c.n.fn != nil && c.n.fn.Pkg() != nil {
				pkgOf = c.n.fn.Pkg().Path()
			}
			for _, ic := range c.n.ifaceCalls {
				if _, ok := f.frameOf(ic, pkgOf); !ok {
					reason = c.path + " [module interface call " + ic.FullName() + " without a frame contract]"
				}
			}
			if c.n.dynamic {
				reason = c.path + " [in-module dynamic call]"
			} else if c.n.external {
				reason = c.path + " [non-leaf external call]"
			} else {
				for name := range c.n.extIface {
					if f.heavyNames[name] {
						reason = c.path + " [calls ." + name + " through a library interface]"
					}
				}
			}
			for _, cal := range c.n.callees {
				if _, ok := f.frameOf(cal, pkgOf); ok {
					continue
				}
				if cn := f.nodes[cal]; cn != nil && !seen[cn] {
					seen[cn] = true
					stack = append(stack, item{cn, c.path + " -> " + cn.name()})
				}
			}
			for _, l := range c.n.lits {
				if !seen[l] {
					seen[l] = true
					stack = append(stack, item{l, c.path + " -> lit"})
				}
			}
		}
		if reason != "" {
			names = append(names, fn.FullName()+": "+reason)
		}
	}
	sort.Strings(names)
	for _, n := range names {
		fmt.Println(n)
	}
	return 0
}
