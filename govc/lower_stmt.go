package main

import (
	"fmt"
	"go/ast"
	"go/token"
	"go/types"
	"strings"
)

func (fc *FnCtx) block(st *State, list []ast.Stmt) {
	for _, s := range list {
		if st.dead() {
			return
		}
		fc.stmt(st, s)
	}
}

func (fc *FnCtx) stmt(st *State, s ast.Stmt) {
	fc.curPos = s.Pos()
	switch s := s.(type) {
	case *ast.BlockStmt:
		fc.block(st, s.List)
	case *ast.ExprStmt:
		if ce, ok := ast.Unparen(s.X).(*ast.CallExpr); ok {
			fc.call(st, ce)
		} else {
			fc.expr(st, s.X)
		}
	case *ast.AssignStmt:
		fc.assignStmt(st, s)
	case *ast.IncDecStmt:
		x := fc.expr(st, s.X)
		one := "1"
		op := "+"
		if s.Tok == token.DEC {
			op = "-"
		}
		fc.assign(st, s.X, Term{S: fmt.Sprintf("(%s %s %s)", op, x.S, one), Sort: SInt, T: x.T}, nil)
	case *ast.DeclStmt:
		fc.declStmt(st, s)
	case *ast.IfStmt:
		fc.ifStmt(st, s)
	case *ast.ForStmt:
		fc.forStmt(st, s, "")
	case *ast.RangeStmt:
		fc.rangeStmt(st, s, "")
	case *ast.SwitchStmt:
		fc.switchStmt(st, s, "")
	case *ast.TypeSwitchStmt:
		fc.typeSwitchStmt(st, s, "")
	case *ast.LabeledStmt:
		switch inner := s.Stmt.(type) {
		case *ast.ForStmt:
			fc.forStmt(st, inner, s.Label.Name)
		case *ast.RangeStmt:
			fc.rangeStmt(st, inner, s.Label.Name)
		case *ast.SwitchStmt:
			fc.switchStmt(st, inner, s.Label.Name)
		case *ast.TypeSwitchStmt:
			fc.typeSwitchStmt(st, inner, s.Label.Name)
		default:
			fc.stmt(st, s.Stmt)
		}
	case *ast.ReturnStmt:
		fc.returnStmt(st, s)
	case *ast.BranchStmt:
		fc.branchStmt(st, s)
	case *ast.DeferStmt:
		for _, a := range s.Call.Args {
			// arguments are evaluated at defer time; values are re-read at exit (approximation, noted)
			_ = a
		}
		st.defers = append(st.defers, deferred{call: s.Call, guard: st.live})
	case *ast.GoStmt:
		// the spawned call is not executed (sequential semantics); anchors `at call f #k` / `after call f #k` written for
		// the callee fire at the go statement, so ghost code can count the spawn and assertions can constrain its arguments
		var gargs []Term
		for _, a := range s.Call.Args {
			gargs = append(gargs, fc.expr(st, a))
		}
		gtext := calleeText(s.Call)
		fc.callOrd[gtext]++
		savedGoArgs := fc.anchorArgs
		fc.anchorArgs = gargs
		fc.runAnchors(st, "call", gtext, fc.callOrd[gtext], s.Pos(), nil)
		fc.runAnchors(st, "aftercall", gtext, fc.callOrd[gtext], s.Pos(), nil)
		fc.anchorArgs = savedGoArgs
		fc.note("go statement at %s: spawned goroutine not modelled (sequential semantics)", fc.posStr(s.Pos()))
	case *ast.EmptyStmt:
	case *ast.SendStmt:
		fc.expr(st, s.Chan)
		fc.expr(st, s.Value)
	case *ast.SelectStmt:
		fc.abstractStmt(st, s)
	default:
		fc.abstractStmt(st, s)
	}
}

// abstractStmt havocs everything a statement the translation does not model could write.
func (fc *FnCtx) abstractStmt(st *State, s ast.Stmt) {
	fc.note("statement %T at %s abstracted (assigned variables and heap havocked)", s, fc.posStr(s.Pos()))
	fc.havocAssigned(st, s, true)
}

// havocAssigned havocs local variables syntactically assigned within n, and (if heap) all heap keys.
func (fc *FnCtx) havocAssigned(st *State, n ast.Node, heap bool) {
	objs, hasCall, fieldWrites := fc.assignedIn(n)
	for _, o := range objs {
		if _, ok := st.vars[o]; ok {
			st.vars[o] = fc.fresh(o.Name(), o.Type())
		} else if v, isVar := o.(*types.Var); isVar && v.Pkg() != nil && v.Parent() == v.Pkg().Scope() {
			fc.get(st, v, sortOf(v.Type()), v.Type())
			st.vars[v] = fc.fresh(o.Name(), o.Type())
		}
	}
	if heap && (hasCall || fieldWrites) {
		for _, k := range fc.stateKeys(st) {
			if k == allocKey {
				continue
			}
			if _, isObj := k.(*types.Var); isObj && !hasCall {
				continue
			}
			old := st.vars[k]
			nv := fc.freshSort(fc.keyName(k), old.Sort)
			nv.T = old.T
			st.vars[k] = nv
			if hk, ok := k.(heapKey); ok {
				fc.wlog = append(fc.wlog, wrec{hk, "*"})
			}
		}
		cur := fc.get(st, allocKey, SInt, nil)
		na := fc.freshSort("alloc", SInt)
		fc.assume(st, boolT(fmt.Sprintf("(>= %s %s)", na.S, cur.S)))
		fc.set(st, allocKey, na)
		fc.structValsAllocated(st)
	}
}

// assignedIn lists objects assigned inside n, whether n contains calls, and whether it writes fields/elements.
func (fc *FnCtx) assignedIn(n ast.Node) (objs []types.Object, hasCall bool, heapWrites bool) {
	seen := map[types.Object]bool{}
	add := func(e ast.Expr) {
		for {
			switch x := ast.Unparen(e).(type) {
			case *ast.Ident:
				obj := fc.info().Uses[x]
				if obj == nil {
					obj = fc.info().Defs[x]
				}
				if obj != nil && !seen[obj] {
					seen[obj] = true
					objs = append(objs, obj)
				}
				return
			case *ast.IndexExpr:
				if _, isMap := fc.typeOf(x.X).Underlying().(*types.Map); isMap {
					heapWrites = true
					return
				}
				e = x.X
				continue
			case *ast.SelectorExpr:
				heapWrites = true
				// a field of a struct-valued local: the local's ref stays the same; heap write
				return
			case *ast.StarExpr:
				heapWrites = true
				return
			default:
				return
			}
		}
	}
	ast.Inspect(n, func(m ast.Node) bool {
		switch x := m.(type) {
		case *ast.AssignStmt:
			for _, l := range x.Lhs {
				add(l)
			}
		case *ast.IncDecStmt:
			add(x.X)
		case *ast.RangeStmt:
			if x.Key != nil {
				add(x.Key)
			}
			if x.Value != nil {
				add(x.Value)
			}
		case *ast.CallExpr:
			if tv, ok := fc.info().Types[x.Fun]; ok && tv.IsType() {
				return true
			}
			if id, ok := ast.Unparen(x.Fun).(*ast.Ident); ok {
				if _, isB := fc.info().Uses[id].(*types.Builtin); isB {
					if id.Name == "delete" {
						heapWrites = true
					}
					if id.Name == "copy" && len(x.Args) > 0 {
						add(x.Args[0])
					}
					return true
				}
			}
			hasCall = true
		case *ast.UnaryExpr:
			if x.Op == token.AND {
				add(x.X)
			}
		case *ast.DeclStmt:
			if gd, ok := x.Decl.(*ast.GenDecl); ok {
				for _, sp := range gd.Specs {
					if vs, ok := sp.(*ast.ValueSpec); ok {
						for _, nm := range vs.Names {
							add(nm)
						}
					}
				}
			}
		}
		return true
	})
	return
}

func (fc *FnCtx) declStmt(st *State, s *ast.DeclStmt) {
	gd, ok := s.Decl.(*ast.GenDecl)
	if !ok || gd.Tok != token.VAR {
		return
	}
	for _, sp := range gd.Specs {
		vs := sp.(*ast.ValueSpec)
		if len(vs.Values) == 1 && len(vs.Names) > 1 {
			if ce, ok := ast.Unparen(vs.Values[0]).(*ast.CallExpr); ok {
				rs := fc.call(st, ce)
				for i, nm := range vs.Names {
					if obj := fc.info().Defs[nm]; obj != nil && i < len(rs) {
						st.vars[obj] = rs[i]
					}
				}
				continue
			}
		}
		for i, nm := range vs.Names {
			obj := fc.info().Defs[nm]
			if obj == nil {
				continue
			}
			if i < len(vs.Values) {
				v := fc.valueFor(st, vs.Values[i], obj.Type())
				fc.bindLocalFunc(obj, vs.Values[i])
				fc.establish(st, obj, vs.Values[i], v)
				st.vars[obj] = v
				continue
			}
			z := fc.zeroValue(obj.Type())
			if z.S == "" {
				z = fc.zeroStruct(st, obj.Type())
			}
			z.T = obj.Type()
			st.vars[obj] = z
		}
	}
}

// establish: a function literal bound to a local that has its own (separately verified) contract with an
// `establishes P` clause makes the ghost predicate P true of the closure value.
func (fc *FnCtx) establish(st *State, obj types.Object, rhs ast.Expr, val Term) {
	if _, ok := ast.Unparen(rhs).(*ast.FuncLit); !ok {
		return
	}
	outer := fc.contract.Key
	if i := strings.Index(outer, "$"); i >= 0 {
		outer = outer[:i]
	}
	c := fc.prog.ContractFor(outer+"$"+obj.Name(), fc.contract.PkgPath)
	if c == nil || c.Opts["establishes"] == "" {
		return
	}
	g := fc.lookupGhostFunc(c.PkgPath, c.Opts["establishes"])
	if g == nil {
		fc.fail("establishes %s: no such ghost predicate", c.Opts["establishes"])
	}
	ce := fc.cenvAt(st, token.NoPos)
	fc.assume(st, ce.ghostCall(g, []Term{val}))
}

func (fc *FnCtx) bindLocalFunc(obj types.Object, rhs ast.Expr) {
	if lit, ok := ast.Unparen(rhs).(*ast.FuncLit); ok {
		fc.localFuncs[obj] = lit
	}
}

func (fc *FnCtx) assignStmt(st *State, s *ast.AssignStmt) {
	fc.assignStmtInner(st, s)
	if len(fc.contract.Anchored) == 0 || st.dead() {
		return
	}
	// `at assign <local> #k` anchors
	for _, l := range s.Lhs {
		if id, ok := l.(*ast.Ident); ok && id.Name != "_" {
			fc.assignOrd[id.Name]++
			fc.runAnchors(st, "assign", id.Name, fc.assignOrd[id.Name], s.End(), nil)
		}
	}
}

func (fc *FnCtx) assignStmtInner(st *State, s *ast.AssignStmt) {
	if s.Tok != token.ASSIGN && s.Tok != token.DEFINE {
		// op=
		l := fc.expr(st, s.Lhs[0])
		r := fc.expr(st, s.Rhs[0])
		op := s.Tok.String()
		op = op[:len(op)-1]
		v := fc.binop(st, op, l, r, fc.typeOf(s.Lhs[0]), s.Pos(), exprText(fc.prog.Fset, s))
		fc.assign(st, s.Lhs[0], v, nil)
		return
	}
	if len(s.Rhs) == 1 && len(s.Lhs) > 1 {
		var vals []Term
		switch r := ast.Unparen(s.Rhs[0]).(type) {
		case *ast.CallExpr:
			vals = fc.call(st, r)
		case *ast.IndexExpr:
			// v, ok := m[k]
			mt, isMap := fc.typeOf(r.X).Underlying().(*types.Map)
			if isMap {
				m := fc.expr(st, r.X)
				k := fc.valueFor(st, r.Index, mt.Key())
				v, ok := fc.mapRead(st, m, mt, k)
				z := fc.zeroValue(mt.Elem())
				if z.S != "" {
					v = tIte(ok, v, z)
				}
				v.T = mt.Elem()
				fc.allocated(st, v)
				vals = []Term{v, ok}
			}
		case *ast.TypeAssertExpr:
			x := fc.expr(st, r.X)
			t := fc.typeOf(r.Type)
			ok := fc.hasTag(x, t)
			var v Term
			if isInterface(t) {
				v = Term{S: x.S, Sort: SInt, T: t}
			} else {
				v = fc.unbox(x, t)
			}
			z := fc.zeroValue(t)
			if z.S != "" && !isSliceSort(z.Sort) {
				v = tIte(ok, v, z)
				v.T = t
			}
			vals = []Term{v, ok}
		case *ast.UnaryExpr:
			// v, ok := <-ch
			fc.expr(st, r.X)
			vals = []Term{fc.fresh("recv", fc.typeOf(s.Lhs[0])), fc.fresh("recvok", types.Typ[types.Bool])}
		}
		for i, l := range s.Lhs {
			if i < len(vals) {
				fc.assign(st, l, vals[i], nil)
			} else {
				fc.assign(st, l, fc.fresh("mv", fc.typeOf(l)), nil)
			}
		}
		return
	}
	// parallel assignment: evaluate all RHS first
	var vals []Term
	for i, r := range s.Rhs {
		var lt types.Type
		if id, ok := s.Lhs[i].(*ast.Ident); ok && id.Name == "_" {
			lt = nil
		} else {
			lt = fc.lhsType(s.Lhs[i])
		}
		vals = append(vals, fc.valueFor(st, r, lt))
	}
	for i, l := range s.Lhs {
		if s.Tok == token.DEFINE {
			if id, ok := l.(*ast.Ident); ok {
				if obj := fc.info().Defs[id]; obj != nil {
					fc.bindLocalFunc(obj, s.Rhs[i])
					fc.establish(st, obj, s.Rhs[i], vals[i])
				}
			}
		}
		fc.assign(st, l, vals[i], s.Rhs[i])
	}
}

func (fc *FnCtx) lhsType(l ast.Expr) types.Type {
	if id, ok := l.(*ast.Ident); ok {
		if obj := fc.info().Defs[id]; obj != nil {
			return obj.Type()
		}
		if obj := fc.info().Uses[id]; obj != nil {
			return obj.Type()
		}
	}
	return fc.typeOf(l)
}

// assign stores val into the location denoted by lhs.
func (fc *FnCtx) assign(st *State, lhs ast.Expr, val Term, rhs ast.Expr) {
	switch l := ast.Unparen(lhs).(type) {
	case *ast.Ident:
		if l.Name == "_" {
			return
		}
		obj := fc.info().Defs[l]
		if obj == nil {
			obj = fc.info().Uses[l]
		}
		if obj == nil {
			return
		}
		val = fc.storeConv(st, val, nil, obj.Type())
		if vo, ok := obj.(*types.Var); ok && vo.Pkg() != nil && vo.Parent() == vo.Pkg().Scope() {
			if fc.eng.guardOf[vo] != nil {
				fc.guardAccess(st, vo, true, l.Pos())
			}
			fc.get(st, vo, sortOf(vo.Type()), vo.Type())
			fc.set(st, vo, val)
			return
		}
		val = fc.nameTerm(obj.Name(), val)
		st.vars[obj] = val
	case *ast.SelectorExpr:
		sel, ok := fc.info().Selections[l]
		if !ok || sel.Kind() != types.FieldVal {
			// qualified package variable
			fc.assign(st, l.Sel, val, rhs)
			return
		}
		base := fc.expr(st, l.X)
		ref, rt, f := fc.selectPath(st, base, sel.Recv(), sel.Index(), l.Pos(), exprText(fc.prog.Fset, l))
		val = fc.storeConv(st, val, nil, f.Type())
		fc.writeField(st, ref, rt, f, val)
	case *ast.IndexExpr:
		xt := fc.typeOf(l.X)
		if mt, ok := xt.Underlying().(*types.Map); ok {
			if gv := fc.guardedIdent(l.X); gv != nil {
				fc.guardAccess(st, gv, true, l.Pos())
			}
			m := fc.expr(st, l.X)
			k := fc.valueFor(st, l.Index, mt.Key())
			if fc.safe {
				fc.safeAssert(st, "nilmap", boolT(fmt.Sprintf("(not (= %s 0))", m.S)), l.Pos(), exprText(fc.prog.Fset, l))
			} else if m.S != "0" {
				// outside safe mode panics are assumed absent: a store into a map that does not panic was into a non-nil map
				fc.assume(st, boolT(fmt.Sprintf("(not (= %s 0))", m.S)))
			}
			val = fc.storeConv(st, val, nil, mt.Elem())
			fc.mapWrite(st, m, mt, k, val)
			return
		}
		x := fc.expr(st, l.X)
		i := fc.expr(st, l.Index)
		if !isSliceSort(x.Sort) {
			fc.note("indexed store on sort %s at %s", x.Sort, fc.posStr(l.Pos()))
			return
		}
		if fc.safe {
			fc.safeAssert(st, "index", boolT(fmt.Sprintf("(and (<= 0 %s) (< %s (slen %s)))", i.S, i.S, x.S)), l.Pos(), exprText(fc.prog.Fset, l))
		}
		var et types.Type
		switch u := xt.Underlying().(type) {
		case *types.Slice:
			et = u.Elem()
		case *types.Array:
			et = u.Elem()
		}
		val = fc.storeConv(st, val, nil, et)
		nx := Term{S: fmt.Sprintf("(mk-slice (store (sarr %s) %s %s) (slen %s))", x.S, i.S, val.S, x.S), Sort: x.Sort, T: xt}
		fc.assign(st, l.X, nx, nil)
	case *ast.StarExpr:
		p := fc.expr(st, l.X)
		fc.safeNonNil(st, p, l.Pos(), exprText(fc.prog.Fset, l))
		et := fc.typeOf(l)
		if isStructVal(et) {
			// *p = v : copy fields into p's object
			u := et.Underlying().(*types.Struct)
			for j := 0; j < u.NumFields(); j++ {
				f := u.Field(j)
				fc.writeField(st, p, et, f, fc.readField(st, val, et, f))
			}
			return
		}
		k := heapKey{"P", smtIdent(types.TypeString(et, nil))}
		arr := fc.get(st, k, arraySort(SInt, sortOf(et)), et)
		nv := fc.freshSort(fc.keyName(k), arr.Sort)
		fc.assume(st, boolT(fmt.Sprintf("(= %s (store %s %s %s))", nv.S, arr.S, p.S, val.S)))
		fc.set(st, k, nv)
	default:
		fc.note("assignment to %T at %s not modelled", lhs, fc.posStr(lhs.Pos()))
	}
}

func (fc *FnCtx) ifStmt(st *State, s *ast.IfStmt) {
	if s.Init != nil {
		fc.stmt(st, s.Init)
	}
	c := fc.expr(st, s.Cond)
	c = fc.nameTerm("cond", c)
	a := st.clone()
	a.live = fc.newLive(tAnd(st.live, c))
	fc.block(a, s.Body.List)
	b := st.clone()
	b.live = fc.newLive(tAnd(st.live, tNot(c)))
	if s.Else != nil {
		fc.stmt(b, s.Else)
	}
	fc.become(st, fc.merge([]*State{a, b}))
}

func (fc *FnCtx) switchStmt(st *State, s *ast.SwitchStmt, label string) {
	if s.Init != nil {
		fc.stmt(st, s.Init)
	}
	var tag Term
	hasTag := s.Tag != nil
	if hasTag {
		tag = fc.expr(st, s.Tag)
		if tag.T == nil {
			tag.T = fc.typeOf(s.Tag)
		}
		tag = fc.nameTerm("tag", tag)
	}
	ctx := &loopCtx{label: label}
	fc.loops = append(fc.loops, ctx)
	var exits []*State
	rest := st.clone() // state in which no earlier case matched
	var defaultClause *ast.CaseClause
	var fall *State
	clauses := s.Body.List
	for _, cs := range clauses {
		cc := cs.(*ast.CaseClause)
		if cc.List == nil {
			defaultClause = cc
			if fall != nil {
				// fallthrough into default: rare; run it now on fall
				fc.block(fall, cc.Body)
				exits = append(exits, fall)
				fall = nil
			}
			continue
		}
		if rest.dead() && fall == nil {
			continue
		}
		var conds []Term
		for _, ce := range cc.List {
			var c Term
			if hasTag {
				v := fc.expr(rest, ce)
				if v.T == nil {
					v.T = fc.typeOf(ce)
				}
				c = fc.binop(rest, "==", tag, v, types.Typ[types.Bool], ce.Pos(), "")
			} else {
				c = fc.expr(rest, ce)
			}
			conds = append(conds, c)
		}
		match := fc.nameTerm("case", tOr(conds...))
		body := rest.clone()
		body.live = fc.newLive(tAnd(rest.live, match))
		if fall != nil {
			body = fc.merge([]*State{body, fall})
			fall = nil
		}
		rest.live = fc.newLive(tAnd(rest.live, tNot(match)))
		fc.block(body, cc.Body)
		if n := len(cc.Body); n > 0 {
			if br, ok := cc.Body[n-1].(*ast.BranchStmt); ok && br.Tok == token.FALLTHROUGH {
				fall = body
				continue
			}
		}
		exits = append(exits, body)
	}
	if defaultClause != nil {
		fc.block(rest, defaultClause.Body)
	}
	exits = append(exits, rest)
	if fall != nil {
		exits = append(exits, fall)
	}
	fc.loops = fc.loops[:len(fc.loops)-1]
	exits = append(exits, ctx.breaks...)
	fc.become(st, fc.merge(exits))
}

func (fc *FnCtx) typeSwitchStmt(st *State, s *ast.TypeSwitchStmt, label string) {
	if s.Init != nil {
		fc.stmt(st, s.Init)
	}
	var x ast.Expr
	var bindName *ast.Ident
	switch a := s.Assign.(type) {
	case *ast.ExprStmt:
		x = ast.Unparen(a.X).(*ast.TypeAssertExpr).X
	case *ast.AssignStmt:
		x = ast.Unparen(a.Rhs[0]).(*ast.TypeAssertExpr).X
		bindName = a.Lhs[0].(*ast.Ident)
	}
	_ = bindName
	v := fc.expr(st, x)
	v = fc.nameTerm("tsw", v)
	ctx := &loopCtx{label: label}
	fc.loops = append(fc.loops, ctx)
	var exits []*State
	rest := st.clone()
	var defaultClause *ast.CaseClause
	for _, cs := range s.Body.List {
		cc := cs.(*ast.CaseClause)
		if cc.List == nil {
			defaultClause = cc
			continue
		}
		var conds []Term
		var single types.Type
		for _, te := range cc.List {
			if id, ok := te.(*ast.Ident); ok && id.Name == "nil" {
				conds = append(conds, boolT(fmt.Sprintf("(= %s 0)", v.S)))
				continue
			}
			t := fc.typeOf(te)
			conds = append(conds, fc.hasTag(v, t))
			single = t
		}
		match := fc.nameTerm("tcase", tOr(conds...))
		body := rest.clone()
		body.live = fc.newLive(tAnd(rest.live, match))
		rest.live = fc.newLive(tAnd(rest.live, tNot(match)))
		if obj := fc.info().Implicits[cc]; obj != nil {
			if len(cc.List) == 1 && single != nil && !isInterface(single) {
				body.vars[obj] = fc.unbox(v, single)
			} else {
				body.vars[obj] = Term{S: v.S, Sort: SInt, T: obj.Type()}
			}
		}
		fc.block(body, cc.Body)
		exits = append(exits, body)
	}
	if defaultClause != nil {
		if obj := fc.info().Implicits[defaultClause]; obj != nil {
			rest.vars[obj] = Term{S: v.S, Sort: SInt, T: obj.Type()}
		}
		fc.block(rest, defaultClause.Body)
	}
	exits = append(exits, rest)
	fc.loops = fc.loops[:len(fc.loops)-1]
	exits = append(exits, ctx.breaks...)
	fc.become(st, fc.merge(exits))
}

func (fc *FnCtx) branchStmt(st *State, s *ast.BranchStmt) {
	switch s.Tok {
	case token.BREAK:
		for i := len(fc.loops) - 1; i >= 0; i-- {
			c := fc.loops[i]
			if s.Label == nil || c.label == s.Label.Name {
				c.breaks = append(c.breaks, st.clone())
				st.live = tFalse
				return
			}
		}
	case token.CONTINUE:
		for i := len(fc.loops) - 1; i >= 0; i-- {
			c := fc.loops[i]
			if !c.isLoop {
				continue
			}
			if s.Label == nil || c.label == s.Label.Name {
				c.continues = append(c.continues, st.clone())
				st.live = tFalse
				return
			}
		}
	case token.FALLTHROUGH:
		return
	case token.GOTO:
		fc.note("goto at %s: path dropped (unsupported)", fc.posStr(s.Pos()))
		fc.unsupported = append(fc.unsupported, "goto at "+fc.posStr(s.Pos()))
	}
	st.live = tFalse
}

// ---- loops ----

// loopHead cuts a loop: asserts the invariants on entry, havocs what the body assigns, assumes the invariants.
func (fc *FnCtx) loopHead(st *State, body ast.Node, extra []ast.Node, n int, pos token.Pos) {
	invs := fc.contract.Invariants[n]
	for i, inv := range invs {
		t := fc.contractExprAt(st, inv, pos)
		fc.assert(st, fmt.Sprintf("inv-init#%d/%s", n, clauseLabel(inv, i)), "inv-init", t, pos, "invariant "+inv.Src)
	}
	fc.havocAssigned(st, body, true)
	for _, e := range extra {
		if e != nil {
			fc.havocAssigned(st, e, true)
		}
	}
	for _, inv := range invs {
		t := fc.contractExprAt(st, inv, pos)
		fc.assume(st, t)
	}
}

func clauseLabel(c *Clause, i int) string {
	if c.Label != "" {
		return c.Label
	}
	return fmt.Sprintf("%d", i+1)
}

func (fc *FnCtx) loopBack(st *State, n int, pos token.Pos) {
	if st.dead() {
		return
	}
	invs := fc.contract.Invariants[n]
	for i, inv := range invs {
		t := fc.contractExprAt(st, inv, pos)
		fc.assert(st, fmt.Sprintf("inv-step#%d/%s", n, clauseLabel(inv, i)), "inv-step", t, pos, "invariant "+inv.Src)
	}
	st.live = tFalse
}

func (fc *FnCtx) forStmtOld(st *State, s *ast.ForStmt, label string) {
	if s.Init != nil {
		fc.stmt(st, s.Init)
	}
	fc.loopOrd++
	n := fc.loopOrd
	var extra []ast.Node
	if s.Post != nil {
		extra = append(extra, s.Post)
	}
	fc.loopHead(st, s.Body, extra, n, s.Body.Pos())
	var cond Term = tTrue
	if s.Cond != nil {
		cond = fc.nameTerm("loopc", fc.expr(st, s.Cond))
	}
	ctx := &loopCtx{label: label, isLoop: true}
	fc.loops = append(fc.loops, ctx)
	body := st.clone()
	body.live = fc.newLive(tAnd(st.live, cond))
	fc.cover(body, fmt.Sprintf("cover-loop#%d", n), s.Body.Pos())
	fc.runLoopAnchors(body, "loopbody", n, s.Body.Pos())
	fc.block(body, s.Body.List)
	fc.loops = fc.loops[:len(fc.loops)-1]
	cont := fc.merge(append([]*State{body}, ctx.continues...))
	if s.Post != nil && !cont.dead() {
		fc.stmt(cont, s.Post)
	}
	fc.loopBack(cont, n, s.Body.Rbrace)
	exit := st.clone()
	exit.live = fc.newLive(tAnd(st.live, tNot(cond)))
	out := fc.merge(append([]*State{exit}, ctx.breaks...))
	fc.become(st, out)
	fc.runLoopAnchors(st, "loopexit", n, s.Body.Rbrace)
}

func (fc *FnCtx) rangeStmtOld(st *State, s *ast.RangeStmt, label string) {
	x := fc.expr(st, s.X)
	xt := fc.typeOf(s.X)
	fc.loopOrd++
	n := fc.loopOrd
	x = fc.nameTerm("rangex", x)

	keyObj, valObj := fc.rangeVar(s.Key, s.Tok), fc.rangeVar(s.Value, s.Tok)

	switch u := xt.Underlying().(type) {
	case *types.Slice, *types.Array, *types.Basic:
		isStr := x.Sort == SStr
		if b, ok := u.(*types.Basic); ok && b.Info()&types.IsInteger != 0 {
			// range over int
			isStr = false
		}
		// ghost index variable
		idxKey := rangeIdxKey{n}
		st.vars[idxKey] = intLit(0)
		length := fc.lenOf(st, x, xt)
		if b, ok := u.(*types.Basic); ok && b.Info()&types.IsInteger != 0 {
			length = x
		}
		// entry invariants are checked with idx = 0 and key var = 0
		if keyObj != nil {
			st.vars[keyObj] = intLit(0)
		}
		invs := fc.contract.Invariants[n]
		for i, inv := range invs {
			t := fc.contractExprAt(st, inv, s.Body.Pos())
			fc.assert(st, fmt.Sprintf("inv-init#%d/%s", n, clauseLabel(inv, i)), "inv-init", t, s.Body.Pos(), "invariant "+inv.Src)
		}
		fc.havocAssigned(st, s.Body, true)
		idx := fc.freshSort("idx", SInt)
		idx.T = types.Typ[types.Int]
		st.vars[idxKey] = idx
		fc.assume(st, boolT(fmt.Sprintf("(and (<= 0 %s) (<= %s %s))", idx.S, idx.S, length.S)))
		if keyObj != nil {
			st.vars[keyObj] = idx
		}
		if valObj != nil {
			st.vars[valObj] = fc.fresh(valObj.Name(), valObj.Type())
		}
		for _, inv := range invs {
			fc.assume(st, fc.contractExprAt(st, inv, s.Body.Pos()))
		}
		cond := boolT(fmt.Sprintf("(< %s %s)", idx.S, length.S))
		ctx := &loopCtx{label: label, isLoop: true}
		fc.loops = append(fc.loops, ctx)
		body := st.clone()
		body.live = fc.newLive(tAnd(st.live, cond))
		var width Term = intLit(1)
		if valObj != nil || isStr {
			if isStr {
				// rune decoding: width in 1..4; ASCII bytes decode to themselves with width 1
				r := fc.fresh("rune", types.Typ[types.Rune])
				w := fc.freshSort("rw", SInt)
				b0 := fmt.Sprintf("(strat %s %s)", x.S, idx.S)
				fc.assumeGlobal(boolT(fmt.Sprintf("(and (>= %s 1) (<= %s 4))", w.S, w.S)))
				fc.assume(body, boolT(fmt.Sprintf("(<= (+ %s %s) %s)", idx.S, w.S, length.S)))
				fc.assume(body, boolT(fmt.Sprintf("(=> (< %s 128) (and (= %s %s) (= %s 1)))", b0, r.S, b0, w.S)))
				fc.assume(body, boolT(fmt.Sprintf("(=> (>= %s 128) (>= %s 128))", b0, r.S)))
				fc.assume(body, boolT(fmt.Sprintf("(>= %s 0)", r.S)))
				width = w
				body.vars[rangeWidthKey{n}] = w
				if valObj != nil {
					body.vars[valObj] = r
				}
			} else if valObj != nil {
				var et types.Type
				switch uu := u.(type) {
				case *types.Slice:
					et = uu.Elem()
				case *types.Array:
					et = uu.Elem()
				}
				if et != nil {
					el := fc.indexTerm(nil, x, idx, et, s.Pos(), "")
					if isStructVal(et) {
						el = fc.copyStruct(body, el, et)
					}
					body.vars[valObj] = el
				}
			}
		}
		fc.cover(body, fmt.Sprintf("cover-loop#%d", n), s.Body.Pos())
		fc.runLoopAnchors(body, "loopbody", n, s.Body.Pos())
		fc.block(body, s.Body.List)
		fc.loops = fc.loops[:len(fc.loops)-1]
		cont := fc.merge(append([]*State{body}, ctx.continues...))
		if !cont.dead() {
			ni := Term{S: fmt.Sprintf("(+ %s %s)", idx.S, width.S), Sort: SInt, T: types.Typ[types.Int]}
			cont.vars[idxKey] = ni
			if keyObj != nil {
				cont.vars[keyObj] = ni
			}
			fc.loopBack(cont, n, s.Body.Rbrace)
		}
		exit := st.clone()
		exit.live = fc.newLive(tAnd(st.live, tNot(cond)))
		// Go leaves the key variable at its last value on normal exit; with := the variables are out of scope anyway
		out := fc.merge(append([]*State{exit}, ctx.breaks...))
		fc.become(st, out)
		fc.runLoopAnchors(st, "loopexit", n, s.Body.Rbrace)
		return
	case *types.Map:
		// arbitrary enumeration: visited set + fresh key in dom \ visited
		dk, _, _, ks, _ := fc.mapKeys(u)
		visKey := rangeVisKey{n}
		emptySet := Term{S: fmt.Sprintf("((as const %s) false)", arraySort(ks, SBool)), Sort: arraySort(ks, SBool)}
		st.vars[visKey] = emptySet
		invs := fc.contract.Invariants[n]
		for i, inv := range invs {
			t := fc.contractExprAt(st, inv, s.Body.Pos())
			fc.assert(st, fmt.Sprintf("inv-init#%d/%s", n, clauseLabel(inv, i)), "inv-init", t, s.Body.Pos(), "invariant "+inv.Src)
		}
		fc.havocAssigned(st, s.Body, true)
		vis := fc.freshSort("visited", arraySort(ks, SBool))
		st.vars[visKey] = vis
		for _, inv := range invs {
			fc.assume(st, fc.contractExprAt(st, inv, s.Body.Pos()))
		}
		dom := fc.get(st, dk, arraySort(SInt, arraySort(ks, SBool)), nil)
		k := fc.freshSort("rk", ks)
		k.T = u.Key()
		// loop continues iff some unvisited key remains; k is such a key
		more := fc.freshSort("more", SBool)
		ctx := &loopCtx{label: label, isLoop: true}
		fc.loops = append(fc.loops, ctx)
		body := st.clone()
		body.live = fc.newLive(tAnd(st.live, more))
		fc.assume(body, boolT(fmt.Sprintf("(and (select (select %s %s) %s) (not (select %s %s)))", dom.S, x.S, k.S, vis.S, k.S)))
		if keyObj != nil {
			body.vars[keyObj] = k
		}
		if valObj != nil {
			v, _ := fc.mapRead(body, x, u, k)
			if isStructVal(u.Elem()) {
				v = fc.copyStruct(body, v, u.Elem())
			}
			fc.allocated(body, v)
			body.vars[valObj] = v
		}
		body.vars[rangeCurKey{n}] = k
		fc.cover(body, fmt.Sprintf("cover-loop#%d", n), s.Body.Pos())
		fc.runLoopAnchors(body, "loopbody", n, s.Body.Pos())
		fc.block(body, s.Body.List)
		fc.loops = fc.loops[:len(fc.loops)-1]
		cont := fc.merge(append([]*State{body}, ctx.continues...))
		if !cont.dead() {
			cont.vars[visKey] = Term{S: fmt.Sprintf("(store %s %s true)", vis.S, k.S), Sort: vis.Sort}
			fc.loopBack(cont, n, s.Body.Rbrace)
		}
		exit := st.clone()
		exit.live = fc.newLive(tAnd(st.live, tNot(more)))
		// on exit every key still in the map has been visited (keys deleted during iteration aside)
		dom2 := fc.get(exit, dk, arraySort(SInt, arraySort(ks, SBool)), nil)
		fc.assume(exit, boolT(fmt.Sprintf("(forall ((qk %s)) (! (=> (select (select %s %s) qk) (select %s qk)) :pattern ((select %s qk))))", ks, dom2.S, x.S, vis.S, vis.S)))
		out := fc.merge(append([]*State{exit}, ctx.breaks...))
		fc.become(st, out)
		fc.runLoopAnchors(st, "loopexit", n, s.Body.Rbrace)
		return
	}
	// channels, functions: abstract
	fc.note("range over %s at %s abstracted", types.TypeString(xt, nil), fc.posStr(s.Pos()))
	fc.havocAssigned(st, s, true)
}

type rangeIdxKey struct{ n int }
type rangeVisKey struct{ n int }
type rangeCurKey struct{ n int }
type rangeWidthKey struct{ n int }

func (k rangeIdxKey) String() string   { return fmt.Sprintf("~idx%d", k.n) }
func (k rangeVisKey) String() string   { return fmt.Sprintf("~vis%d", k.n) }
func (k rangeCurKey) String() string   { return fmt.Sprintf("~cur%d", k.n) }
func (k rangeWidthKey) String() string { return fmt.Sprintf("~w%d", k.n) }

func (fc *FnCtx) rangeVar(e ast.Expr, tok token.Token) types.Object {
	if e == nil {
		return nil
	}
	id, ok := e.(*ast.Ident)
	if !ok || id.Name == "_" {
		return nil
	}
	if tok == token.DEFINE {
		return fc.info().Defs[id]
	}
	return fc.info().Uses[id]
}

// ---- returns, defers, panics ----

func (fc *FnCtx) returnStmt(st *State, s *ast.ReturnStmt) {
	var vals []Term
	if fc.inl != nil {
		sig := fc.inl.sig
		if len(s.Results) == 1 && sig.Results().Len() > 1 {
			vals = fc.call(st, ast.Unparen(s.Results[0]).(*ast.CallExpr))
		} else {
			for i, r := range s.Results {
				vals = append(vals, fc.valueFor(st, r, sig.Results().At(i).Type()))
			}
		}
		fc.inlineReturn(st, vals, s.Pos())
		return
	}
	sig := fc.fnSig
	if len(s.Results) == 1 && sig.Results().Len() > 1 {
		vals = fc.call(st, ast.Unparen(s.Results[0]).(*ast.CallExpr))
	} else {
		for i, r := range s.Results {
			vals = append(vals, fc.valueFor(st, r, sig.Results().At(i).Type()))
		}
	}
	fc.doReturn(st, vals, s.Pos(), exprText(fc.prog.Fset, s))
}

func (fc *FnCtx) doReturn(st *State, vals []Term, pos token.Pos, text string) {
	fc.retOrd++
	ord := fc.retOrd
	if len(vals) > 0 {
		for i, rv := range fc.results {
			if i < len(vals) {
				v := vals[i]
				v.T = rv.Type()
				st.vars[rv] = fc.nameTerm(rv.Name(), v)
			}
		}
	}
	fc.cover(st, fmt.Sprintf("cover-return#%d", ord), pos)
	fc.runDefers(st)
	// anchored "at return" clauses, then postconditions
	fc.runAnchors(st, "return", "", ord, pos, nil)
	fc.guardReturn(st, ord, pos)
	fc.assertPkgInvs(st, fmt.Sprintf("return#%d", ord), pos)
	for i, en := range fc.contract.Ensures {
		t := fc.contractExprAt(st, en, token.NoPos)
		fc.assert(st, fmt.Sprintf("post#%s@return#%d", clauseLabel(en, i), ord), "post", t, pos, "ensures "+en.Src+"   at: "+text)
	}
	st.live = tFalse
}

func (fc *FnCtx) runDefers(st *State) {
	defers := st.defers
	st.defers = nil
	for i := len(defers) - 1; i >= 0; i-- {
		d := defers[i]
		// the defer runs only if it was registered on this path
		run := st.clone()
		run.live = fc.newLive(tAnd(st.live, d.guard))
		skip := st.clone()
		skip.live = fc.newLive(tAnd(st.live, tNot(d.guard)))
		saved := fc.inDefer
		fc.inDefer = true
		if lit, ok := ast.Unparen(d.call.Fun).(*ast.FuncLit); ok {
			var args []Term
			for _, a := range d.call.Args {
				args = append(args, fc.expr(run, a))
			}
			fc.inlineLit(run, lit, args)
		} else {
			fc.call(run, d.call)
		}
		fc.inDefer = saved
		fc.become(st, fc.merge([]*State{run, skip}))
	}
}

func (fc *FnCtx) onPanic(st *State, pos token.Pos) {
	// panics are exits without postcondition obligations; deferred calls still run (for typestate clauses)
	if len(st.defers) > 0 && !fc.inDefer {
		fc.runDefers(st)
		fc.runAnchors(st, "panic", "", 0, pos, nil)
	}
	st.live = tFalse
}

// ---- anchored clauses ----

func (fc *FnCtx) runAnchors(st *State, kind, name string, ord int, pos token.Pos, results []Term) {
	if fc.inlineDepth > 0 && kind == "return" {
		return
	}
	for i, c := range fc.contract.Anchored {
		if c.AnchorKind != kind {
			continue
		}
		if kind == "call" || kind == "aftercall" || kind == "assign" {
			if c.AnchorName != name || (c.AnchorOrd != 0 && c.AnchorOrd != ord) {
				continue
			}
		} else if kind == "return" {
			if c.AnchorOrd != 0 && c.AnchorOrd != ord {
				continue
			}
			if c.AnchorName != "" && !fc.localInScope(c.AnchorName, pos) {
				continue
			}
		}
		fc.anchorHit[i] = true
		fc.applyAnchored(st, c, i, kind, name, ord, pos, results)
	}
}

func (fc *FnCtx) runLoopAnchors(st *State, kind string, n int, pos token.Pos) {
	for i, c := range fc.contract.Anchored {
		if c.AnchorKind != kind || c.LoopN != n {
			continue
		}
		fc.anchorHit[i] = true
		fc.applyAnchored(st, c, i, kind, "", n, pos, nil)
	}
}

func (fc *FnCtx) applyAnchored(st *State, c *Clause, i int, kind, name string, ord int, pos token.Pos, results []Term) {
	extra := map[string]Term{}
	for j, r := range results {
		extra[fmt.Sprintf("ret%d", j)] = r
	}
	if kind == "call" || kind == "aftercall" {
		// arg0, arg1, ...: the argument values of the anchored call (recv: its receiver)
		for j, a := range fc.anchorArgs {
			extra[fmt.Sprintf("arg%d", j)] = a
		}
		extra["nargs"] = intLit(int64(len(fc.anchorArgs))) // variadic arguments are counted individually
	}
	switch c.Kind {
	case "assert":
		t := fc.contractExprAtWith(st, c, pos, extra)
		var nm string
		switch kind {
		case "call", "aftercall":
			nm = fmt.Sprintf("ghost-assert@%s-%s#%d/%s", kind, name, ord, clauseLabel(c, i))
		case "return":
			nm = fmt.Sprintf("at-return#%d/%s", ord, clauseLabel(c, i))
		default:
			nm = fmt.Sprintf("ghost-assert@%s#%d/%s", kind, ord, clauseLabel(c, i))
		}
		fc.assert(st, nm, "ghost-assert", t, pos, "assert "+c.Src)
	case "assume":
		t := fc.contractExprAtWith(st, c, pos, extra)
		fc.assumptions[fmt.Sprintf("assume at %s %s in %s: %s", kind, name, fc.name, c.Src)] = true
		fc.assume(st, t)
	case "ghost":
		ce := fc.cenvAt(st, pos)
		for k, v := range extra {
			ce.names[k] = v
		}
		v := ce.expr(c.Expr)
		fc.setGhost(st, c.GhostVar, v)
	}
}

func (fc *FnCtx) setGhost(st *State, name string, v Term) {
	gv := fc.lookupGhostVar(fc.contract.PkgPath, name)
	if gv == nil && strings.Contains(name, ".") {
		// pkg.name: a ghost variable declared in an imported package's contract file
		if gp, gn := resolveGhostName(fc.prog, fc.contract.PkgPath, name); gp != "" {
			gv = fc.lookupGhostVar(gp, gn)
			name = gn
		}
	}
	if gv == nil {
		fc.fail("ghost assignment to undeclared ghost var %s", name)
	}
	k := heapKey{"X", gv.PkgPath + "." + gv.Name}
	fc.get(st, k, v.Sort, nil)
	v = fc.nameTerm(name, v)
	fc.set(st, k, v)
}
