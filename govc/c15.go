package main

import (
	"bytes"
	"fmt"
	"go/ast"
	"go/printer"
	"go/token"
	"go/types"
	"os"
	"sort"
	"strings"
)

// C15: structural obligations about the table extractor, recomputed from /repo's syntax and types on every run.
//
//   children[T.F]   every node-bearing field F of every AST node type T is handed to nodes() by T.Children() on every
//                   path (directly, or through the copy loop that turns a []*X into a []Node)
//   nodes-args      every argument of every nodes() call is a Node or a []Node (anything else is dropped silently)
//   tables[T.F]     every node-bearing field F of every statement type T is walked (read), recorded (write/admin), or
//                   is one of the exempt DDL positions
//   tables-case[T]  every statement type has a case in Tables() and in StatementKind()
//   kinds           StatementKind() maps the statement types one to one to kinds, the CREATE/DROP/ALTER ones to
//                   exactly the kinds the callers demand DSN-administrator authority for
//   read/write/admin/walk  the helper closures and ast.Walk have their canonical bodies (every reference recorded,
//                   unconditionally; descent never cut short)
//   usage-literals  every TableUsage literal names one of the three usages
//
// A shape the scanner does not recognise is *undecided* (a note), never a violation: the bounded corpus, which runs
// the real code, is what speaks then.

var c15ExemptFields = map[string]string{
	"CreateTableStmt.Columns":     "column definitions: DEFAULT / CHECK / GENERATED expressions, where SQLite and PostgreSQL reject subqueries; REFERENCES names a table without reading it; the statement needs DSN-administrator authority",
	"CreateTableStmt.Constraints": "table constraints: CHECK expressions, where both back ends reject subqueries; FOREIGN KEY names a table without reading it",
	"AlterTableStmt.Action":       "ALTER TABLE actions (ADD COLUMN with a column definition, renames, drops): as for column definitions",
	"CreateIndexStmt.Columns":     "index key expressions: both back ends reject subqueries in index expressions",
}

func (r *Run) tableSoft(name, text, detail string) {
	o := &Obligation{Name: "table/" + name, Class: "table", Func: "table", Text: text, Backend: "scan", Output: detail, Answer: "unknown", SoftTimeout: true}
	r.Extra = append(r.Extra, o)
}

func squash(fset *token.FileSet, n ast.Node) string {
	var b bytes.Buffer
	_ = printer.Fprint(&b, fset, n)
	return strings.Join(strings.Fields(b.String()), "")
}

type c15Scan struct {
	r        *Run
	astPkg   *types.Package
	node     *types.Interface
	stmt     *types.Interface
	memo     map[types.Type]int // 0 unknown, 1 in progress / no, 2 yes
	nodeSlic types.Type
}

func (c *c15Scan) isNode(t types.Type) bool {
	if types.IsInterface(t) {
		return types.Identical(t.Underlying(), c.node)
	}
	return types.Implements(t, c.node)
}

// bearing: a value of type t can hold (a reference to) an AST node.
func (c *c15Scan) bearing(t types.Type) bool {
	switch c.memo[t] {
	case 1:
		return false
	case 2:
		return true
	}
	c.memo[t] = 1
	ans := false
	switch {
	case c.isNode(t):
		ans = true
	default:
		switch u := t.Underlying().(type) {
		case *types.Slice:
			ans = c.bearing(u.Elem())
		case *types.Array:
			ans = c.bearing(u.Elem())
		case *types.Pointer:
			ans = c.bearing(u.Elem())
		case *types.Map:
			ans = c.bearing(u.Elem()) || c.bearing(u.Key())
		case *types.Struct:
			for i := 0; i < u.NumFields(); i++ {
				if c.bearing(u.Field(i).Type()) {
					ans = true
				}
			}
		}
	}
	if ans {
		c.memo[t] = 2
	} else {
		c.memo[t] = 1
	}
	return ans
}

func (c *c15Scan) bearingFields(named *types.Named) []*types.Var {
	st, ok := named.Underlying().(*types.Struct)
	if !ok {
		return nil
	}
	var out []*types.Var
	for i := 0; i < st.NumFields(); i++ {
		if c.bearing(st.Field(i).Type()) {
			out = append(out, st.Field(i))
		}
	}
	return out
}

// fieldOf: e is recv.F -> F
func fieldOf(e ast.Expr, recv string) string {
	if s, ok := ast.Unparen(e).(*ast.SelectorExpr); ok {
		if id, ok := s.X.(*ast.Ident); ok && id.Name == recv {
			return s.Sel.Name
		}
	}
	return ""
}

// condRulesOut: cond has the conjunct recv.F == nil or len(recv.F) == 0
func condRulesOut(cond ast.Expr, recv, field string) bool {
	switch x := ast.Unparen(cond).(type) {
	case *ast.BinaryExpr:
		if x.Op == token.LAND {
			return condRulesOut(x.X, recv, field) || condRulesOut(x.Y, recv, field)
		}
		if x.Op == token.EQL {
			if fieldOf(x.X, recv) == field {
				if id, ok := x.Y.(*ast.Ident); ok && id.Name == "nil" {
					return true
				}
			}
			if call, ok := x.X.(*ast.CallExpr); ok && len(call.Args) == 1 {
				if id, ok := call.Fun.(*ast.Ident); ok && id.Name == "len" && fieldOf(call.Args[0], recv) == field {
					if lit, ok := x.Y.(*ast.BasicLit); ok && lit.Value == "0" {
						return true
					}
				}
			}
		}
	}
	return false
}

// childrenCoverage: which fields T.Children() hands to nodes() on every path. known=false: shape not recognised.
// missingOnPath: fields a conditional early return leaves out although its condition does not rule them out.
func (c *c15Scan) childrenCoverage(src *FuncSrc) (covered map[string]bool, missingOnPath map[string]string, known bool, why string) {
	covered, missingOnPath = map[string]bool{}, map[string]string{}
	decl := src.Decl
	info := src.Pkg.TypesInfo
	if decl.Recv == nil || len(decl.Recv.List) == 0 || len(decl.Recv.List[0].Names) == 0 || decl.Body == nil {
		return covered, missingOnPath, false, "no receiver name"
	}
	recv := decl.Recv.List[0].Names[0].Name
	copies := map[string]string{}
	retCover := func(rs *ast.ReturnStmt) (map[string]bool, bool) {
		cov := map[string]bool{}
		if len(rs.Results) != 1 {
			return cov, false
		}
		if id, ok := rs.Results[0].(*ast.Ident); ok && id.Name == "nil" {
			return cov, true
		}
		call, ok := rs.Results[0].(*ast.CallExpr)
		if !ok {
			return cov, false
		}
		id, ok := call.Fun.(*ast.Ident)
		if !ok || id.Name != "nodes" || call.Ellipsis.IsValid() {
			return cov, false
		}
		for _, a := range call.Args {
			if f := fieldOf(a, recv); f != "" {
				t := info.TypeOf(a)
				if t != nil && (c.isNode(t) || types.Identical(t, c.nodeSlic)) {
					cov[f] = true
				}
				continue
			}
			if lid, ok := a.(*ast.Ident); ok {
				if f, ok := copies[lid.Name]; ok {
					cov[f] = true
					continue
				}
				if lid.Name == "nil" {
					continue
				}
			}
			return cov, false
		}
		return cov, true
	}
	list := decl.Body.List
	for i := 0; i < len(list); i++ {
		switch s := list[i].(type) {
		case *ast.AssignStmt:
			// x := make([]Node, len(n.F)); for i, c := range n.F { x[i] = c }
			if s.Tok == token.DEFINE && len(s.Lhs) == 1 && len(s.Rhs) == 1 && i+1 < len(list) {
				x, _ := s.Lhs[0].(*ast.Ident)
				call, _ := s.Rhs[0].(*ast.CallExpr)
				rg, _ := list[i+1].(*ast.RangeStmt)
				if x != nil && call != nil && rg != nil && len(call.Args) == 2 {
					if mk, ok := call.Fun.(*ast.Ident); ok && mk.Name == "make" {
						if ln, ok := call.Args[1].(*ast.CallExpr); ok && len(ln.Args) == 1 {
							f := fieldOf(ln.Args[0], recv)
							want := fmt.Sprintf("for%s,%s:=range%s.%s{%s[%s]=%s}", identName(rg.Key), identName(rg.Value), recv, f, x.Name, identName(rg.Key), identName(rg.Value))
							if f != "" && identName(rg.Key) != "" && identName(rg.Value) != "" && squash(c.r.Prog.Fset, rg) == want {
								copies[x.Name] = f
								i++
								continue
							}
						}
					}
				}
			}
			return covered, missingOnPath, false, "statement not recognised: " + squash(c.r.Prog.Fset, s)
		case *ast.DeclStmt:
			// var x []Node; for _, row := range n.F { x = append(x, row...) }
			if gd, ok := s.Decl.(*ast.GenDecl); ok && gd.Tok == token.VAR && len(gd.Specs) == 1 && i+1 < len(list) {
				vs, _ := gd.Specs[0].(*ast.ValueSpec)
				rg, _ := list[i+1].(*ast.RangeStmt)
				if vs != nil && rg != nil && len(vs.Names) == 1 && len(vs.Values) == 0 {
					x := vs.Names[0].Name
					f := fieldOf(rg.X, recv)
					want := fmt.Sprintf("for_,%s:=range%s.%s{%s=append(%s,%s...)}", identName(rg.Value), recv, f, x, x, identName(rg.Value))
					if f != "" && identName(rg.Value) != "" && squash(c.r.Prog.Fset, rg) == want {
						copies[x] = f
						i++
						continue
					}
				}
			}
			return covered, missingOnPath, false, "declaration not recognised"
		case *ast.IfStmt:
			// if cond { return nil | nodes(...) }: the fields left out must be ruled out by cond
			if s.Init == nil && s.Else == nil && len(s.Body.List) == 1 {
				if rs, ok := s.Body.List[0].(*ast.ReturnStmt); ok {
					if cov, ok := retCover(rs); ok {
						for _, f := range c.allBearing(src) {
							if !cov[f] && !condRulesOut(s.Cond, recv, f) {
								missingOnPath[f] = "the return under `if " + squash(c.r.Prog.Fset, s.Cond) + "` leaves it out"
							}
						}
						continue
					}
				}
			}
			return covered, missingOnPath, false, "conditional not recognised"
		case *ast.ReturnStmt:
			if i != len(list)-1 {
				return covered, missingOnPath, false, "return before the end"
			}
			cov, ok := retCover(s)
			if !ok {
				return covered, missingOnPath, false, "return value not recognised: " + squash(c.r.Prog.Fset, s)
			}
			return cov, missingOnPath, true, ""
		default:
			return covered, missingOnPath, false, "statement not recognised"
		}
	}
	return covered, missingOnPath, false, "no final return"
}

func identName(e ast.Expr) string {
	if id, ok := e.(*ast.Ident); ok {
		return id.Name
	}
	return ""
}

func (c *c15Scan) allBearing(src *FuncSrc) []string {
	sig := src.Obj.Type().(*types.Signature)
	if sig.Recv() == nil {
		return nil
	}
	t := sig.Recv().Type()
	if p, ok := t.(*types.Pointer); ok {
		t = p.Elem()
	}
	named, ok := t.(*types.Named)
	if !ok {
		return nil
	}
	var out []string
	for _, f := range c.bearingFields(named) {
		out = append(out, f.Name())
	}
	return out
}

const (
	c15ReadCanon  = "func(nodes...ast.Node){for_,n:=rangenodes{ast.Walk(n,func(nodeast.Node)bool{ifref,ok:=node.(*ast.TableRef);ok{out=append(out,TableUsage{Name:tableRefName(ref),Usage:UsageRead})}returntrue})}}"
	c15WriteCanon = "func(ref*ast.TableRef){ifname:=tableRefName(ref);name!=\"\"{out=append(out,TableUsage{Name:name,Usage:UsageWrite})}}"
	c15AdminCanon = "func(namestring){ifname!=\"\"{out=append(out,TableUsage{Name:name,Usage:UsageAdmin})}}"
	c15WalkCanon  = "{ifnode==nil||isNil(node){return}if!fn(node){return}for_,child:=rangenode.Children(){Walk(child,fn)}}"
	c15NodesCanon = "{varresult[]Nodefor_,item:=rangeitems{switchv:=item.(type){casenil:caseNode:if!isNil(v){result=append(result,v)}case[]Node:for_,n:=rangev{if!isNil(n){result=append(result,n)}}}}returnresult}"
	c15RefNameCanon = "{ifref==nil{return\"\"}ifref.Schema!=\"\"{returnref.Schema+\".\"+ref.Name}returnref.Name}"
)

func c15Extra(r *Run) error {
	astPath := modInternal + "sqlparse/ast"
	spPath := modInternal + "sqlparse"
	apk, spk := r.Prog.Pkgs[astPath], r.Prog.Pkgs[spPath]
	if apk == nil || spk == nil || apk.Types == nil || spk.Types == nil {
		r.table("C15/packages", false, "sqlparse packages not loaded", "")
		return nil
	}
	lookupIface := func(name string) *types.Interface {
		if o := apk.Types.Scope().Lookup(name); o != nil {
			if it, ok := o.Type().Underlying().(*types.Interface); ok {
				return it
			}
		}
		return nil
	}
	c := &c15Scan{r: r, astPkg: apk.Types, node: lookupIface("Node"), stmt: lookupIface("Statement"), memo: map[types.Type]int{}}
	if c.node == nil || c.stmt == nil {
		r.table("C15/packages", false, "ast.Node / ast.Statement not found", "")
		return nil
	}
	c.nodeSlic = types.NewSlice(apk.Types.Scope().Lookup("Node").Type())
	fset := r.Prog.Fset

	// ---- Children() ----
	var nodeTypes, stmtTypes []*types.Named
	names := apk.Types.Scope().Names()
	sort.Strings(names)
	for _, n := range names {
		tn, ok := apk.Types.Scope().Lookup(n).(*types.TypeName)
		if !ok || tn.IsAlias() {
			continue
		}
		named, ok := tn.Type().(*types.Named)
		if !ok {
			continue
		}
		if _, ok := named.Underlying().(*types.Struct); !ok {
			continue
		}
		if !types.Implements(types.NewPointer(named), c.node) {
			continue
		}
		nodeTypes = append(nodeTypes, named)
		if types.Implements(types.NewPointer(named), c.stmt) {
			stmtTypes = append(stmtTypes, named)
		}
	}
	allFields := map[string]bool{}
	nChildren := 0
	for _, named := range nodeTypes {
		tname := named.Obj().Name()
		fields := c.bearingFields(named)
		for _, f := range fields {
			allFields[tname+"."+f.Name()] = true
		}
		if len(fields) == 0 {
			continue
		}
		src := r.Prog.FuncDecls["(*"+astPath+"."+tname+").Children"]
		if src == nil {
			src = r.Prog.FuncDecls["("+astPath+"."+tname+").Children"]
		}
		if src == nil {
			// Children comes from an embedded type: the embedded one cannot know this type's fields
			for _, f := range fields {
				if f.Embedded() {
					continue
				}
				r.table(fmt.Sprintf("C15/children[%s.%s]", tname, f.Name()), false, "node-bearing field is handed to nodes() by Children()", tname+" has no Children() of its own")
			}
			continue
		}
		nChildren++
		cov, missing, known, why := c.childrenCoverage(src)
		for _, f := range fields {
			name := fmt.Sprintf("C15/children[%s.%s]", tname, f.Name())
			text := fmt.Sprintf("%s.Children() hands field %s (%s) to nodes() on every path", tname, f.Name(), types.TypeString(f.Type(), types.RelativeTo(apk.Types)))
			switch {
			case missing[f.Name()] != "":
				r.table(name, false, text, missing[f.Name()])
			case !known:
				if !mentions(src.Decl.Body, f.Name()) {
					r.table(name, false, text, "the field is not mentioned in Children() at all")
				} else {
					r.tableSoft(name, text, "shape of Children() not recognised ("+why+"): undecided here; the bounded corpus exercises it")
				}
			default:
				r.table(name, cov[f.Name()], text, "not among the arguments of the final nodes() call")
			}
		}
	}
	// a table is named by a *TableRef node, which the walk finds; a plain string field that names one is invisible to it
	// unless Tables() reads it (CreateIndexStmt.Table, the view and index names)
	{
		var bad, seen []string
		for _, named := range nodeTypes {
			st, _ := named.Underlying().(*types.Struct)
			if st == nil {
				continue
			}
			isStmt := types.Implements(types.NewPointer(named), c.stmt)
			for i := 0; i < st.NumFields(); i++ {
				f := st.Field(i)
				if b, ok := f.Type().Underlying().(*types.Basic); !ok || b.Kind() != types.String {
					continue
				}
				lower := strings.ToLower(f.Name())
				// the field names that say "this string is the name of a table": an alias, a table-valued function's name
				// or a qualifier would be something else
				if !map[string]bool{"table": true, "tablename": true, "tbl": true, "view": true, "viewname": true, "relation": true, "reftable": true}[lower] {
					continue
				}
				key := named.Obj().Name() + "." + f.Name()
				seen = append(seen, key)
				switch {
				case named.Obj().Name() == "TableRef" || named.Obj().Name() == "ColumnReferences" || named.Obj().Name() == "TableForeignKey" || named.Obj().Name() == "ColumnRef" || named.Obj().Name() == "StarExpr":
					// the reference node itself; a foreign key's target (named, not read); a column's qualifier
				case isStmt:
					// read by the statement's case in Tables()? (checked below by mention)
					src := r.Prog.FuncDecls["("+modInternal+"sqlparse.Sqlparse).Tables"]
					if src == nil || !mentions(src.Decl.Body, f.Name()) {
						bad = append(bad, key+" is not read by Tables()")
					}
				default:
					bad = append(bad, key+": a table named by a plain string inside an expression or clause node is invisible to the walk")
				}
			}
		}
		sort.Strings(bad)
		r.table("C15/table-names-are-nodes[ast]", len(bad) == 0, "no AST node names a table by a plain string field that the table walk cannot see", fmt.Sprintf("string fields looked at: %v; %s", seen, strings.Join(bad, "; ")))
	}
	// every nodes() argument is a Node or a []Node
	{
		var bad []string
		calls := 0
		for _, f := range apk.Syntax {
			if strings.HasSuffix(fset.Position(f.Pos()).Filename, "_test.go") {
				continue
			}
			ast.Inspect(f, func(n ast.Node) bool {
				call, ok := n.(*ast.CallExpr)
				if !ok {
					return true
				}
				if id, ok := call.Fun.(*ast.Ident); !ok || id.Name != "nodes" || apk.TypesInfo.Uses[id] == nil || apk.TypesInfo.Uses[id].Parent() != apk.Types.Scope() {
					return true
				}
				calls++
				for _, a := range call.Args {
					t := apk.TypesInfo.TypeOf(a)
					if t == nil {
						continue
					}
					if b, ok := t.(*types.Basic); ok && b.Kind() == types.UntypedNil {
						continue
					}
					if !c.isNode(t) && !types.Identical(t, c.nodeSlic) {
						bad = append(bad, fmt.Sprintf("%s: argument %s of type %s is dropped by nodes()", fset.Position(a.Pos()), squash(fset, a), types.TypeString(t, types.RelativeTo(apk.Types))))
					}
				}
				return true
			})
		}
		r.table("C15/nodes-args[all]", len(bad) == 0 && calls > 0, "every argument of every nodes() call is a Node or a []Node (the type switch in nodes() keeps nothing else)", fmt.Sprintf("%d calls; %s", calls, strings.Join(bad, "; ")))
	}
	// canonical helpers
	canon := func(name, full string, want string, text string) {
		src := r.Prog.FuncDecls[full]
		if src == nil || src.Decl.Body == nil {
			r.table(name, false, text, full+" not found")
			return
		}
		if got := squash(fset, src.Decl.Body); got == want {
			r.table(name, true, text, "")
		} else {
			r.tableSoft(name, text, "body differs from the shape this scanner recognises: undecided here; the bounded corpus exercises it")
		}
	}
	canon("C15/walk-visits-every-child", astPath+".Walk", c15WalkCanon, "ast.Walk calls fn on the node and recurses into every element of Children() unless fn said no")
	canon("C15/nodes-keeps-every-node", astPath+".nodes", c15NodesCanon, "nodes() keeps every non-nil Node argument and every non-nil element of every []Node argument")
	canon("C15/table-ref-name", spPath+".tableRefName", c15RefNameCanon, "tableRefName is the schema-qualified name of the reference")

	// ---- Tables() and StatementKind() ----
	tsrc := r.Prog.FuncDecls["("+spPath+".Sqlparse).Tables"]
	ksrc := r.Prog.FuncDecls["("+spPath+".Sqlparse).StatementKind"]
	if tsrc == nil || ksrc == nil || tsrc.Decl.Body == nil || ksrc.Decl.Body == nil {
		r.table("C15/tables-structure", false, "Tables / StatementKind not found", "")
		return nil
	}
	closures := map[string]*ast.FuncLit{}
	var tswitch *ast.TypeSwitchStmt
	for _, s := range tsrc.Decl.Body.List {
		switch x := s.(type) {
		case *ast.AssignStmt:
			if x.Tok == token.DEFINE && len(x.Lhs) == 1 && len(x.Rhs) == 1 {
				if fl, ok := x.Rhs[0].(*ast.FuncLit); ok {
					closures[identName(x.Lhs[0])] = fl
				}
			}
		case *ast.TypeSwitchStmt:
			tswitch = x
		}
	}
	for _, cl := range []struct{ name, want, text string }{
		{"read", c15ReadCanon, "read() walks each node it is given and records every *ast.TableRef under it as a read, unconditionally, never cutting the descent short"},
		{"write", c15WriteCanon, "write() records the target table as a write"},
		{"admin", c15AdminCanon, "admin() records the named object as an administrative usage"},
	} {
		fl := closures[cl.name]
		switch {
		case fl == nil:
			r.tableSoft("C15/tables-"+cl.name, cl.text, "closure "+cl.name+" not found in Tables(): undecided here")
		case squash(fset, fl) == cl.want:
			r.table("C15/tables-"+cl.name, true, cl.text, "")
		default:
			r.tableSoft("C15/tables-"+cl.name, cl.text, "body differs from the shape this scanner recognises: undecided here; the bounded corpus exercises it")
		}
	}
	if tswitch == nil {
		r.table("C15/tables-structure", false, "Tables() has a type switch over the statement", "")
		return nil
	}
	svar := ""
	if as, ok := tswitch.Assign.(*ast.AssignStmt); ok && len(as.Lhs) == 1 {
		svar = identName(as.Lhs[0])
	}
	caseOf := map[string]*ast.CaseClause{}
	for _, cs := range tswitch.Body.List {
		cc := cs.(*ast.CaseClause)
		for _, te := range cc.List {
			if st, ok := te.(*ast.StarExpr); ok {
				if sel, ok := st.X.(*ast.SelectorExpr); ok {
					caseOf[sel.Sel.Name] = cc
				}
			}
		}
	}
	// clause coverage
	clauseCover := func(cc *ast.CaseClause) (cov map[string]bool, whole bool, known bool) {
		cov = map[string]bool{}
		known = true
		var call func(e ast.Expr, loopVar, loopField string) bool
		call = func(e ast.Expr, loopVar, loopField string) bool {
			ce, ok := e.(*ast.CallExpr)
			if !ok {
				return false
			}
			fn := identName(ce.Fun)
			switch fn {
			case "read":
				for _, a := range ce.Args {
					switch {
					case identName(a) == svar && svar != "":
						whole = true
					case identName(a) == loopVar && loopVar != "":
						cov[loopField] = true
					case fieldOf(a, svar) != "":
						cov[fieldOf(a, svar)] = true
					default:
						return false
					}
				}
				return true
			case "write":
				if len(ce.Args) == 1 && fieldOf(ce.Args[0], svar) != "" {
					cov[fieldOf(ce.Args[0], svar)] = true
					return true
				}
			case "admin":
				if len(ce.Args) == 1 {
					if inner, ok := ce.Args[0].(*ast.CallExpr); ok && identName(inner.Fun) == "tableRefName" && len(inner.Args) == 1 && fieldOf(inner.Args[0], svar) != "" {
						cov[fieldOf(inner.Args[0], svar)] = true
						return true
					}
					if fieldOf(ce.Args[0], svar) != "" {
						return true
					}
				}
			}
			return false
		}
		for _, s := range cc.Body {
			switch x := s.(type) {
			case *ast.ExprStmt:
				if !call(x.X, "", "") {
					known = false
				}
			case *ast.RangeStmt:
				f := fieldOf(x.X, svar)
				v := identName(x.Value)
				if f == "" || v == "" || x.Key != nil && identName(x.Key) != "_" || len(x.Body.List) != 1 {
					known = false
					continue
				}
				es, ok := x.Body.List[0].(*ast.ExprStmt)
				if !ok || !call(es.X, v, f) {
					known = false
				}
			default:
				known = false
			}
		}
		return cov, whole, known
	}
	var exemptUsed []string
	for _, named := range stmtTypes {
		tname := named.Obj().Name()
		cc := caseOf[tname]
		if cc == nil {
			r.table(fmt.Sprintf("C15/tables-case[%s]", tname), false, "statement type "+tname+" has a case in Tables()", "no case: its tables are not reported")
			continue
		}
		r.table(fmt.Sprintf("C15/tables-case[%s]", tname), true, "statement type "+tname+" has a case in Tables()", "")
		fields := c.bearingFields(named)
		if len(fields) == 0 {
			continue
		}
		cov, whole, known := clauseCover(cc)
		if len(cc.List) != 1 {
			known = false
		}
		for _, f := range fields {
			key := tname + "." + f.Name()
			name := fmt.Sprintf("C15/tables[%s]", key)
			text := fmt.Sprintf("Tables() walks or records field %s of %s", f.Name(), tname)
			switch {
			case whole || cov[f.Name()]:
				r.table(name, true, text, "")
			case c15ExemptFields[key] != "":
				exemptUsed = append(exemptUsed, key)
				r.table(name, true, text+" (exempt position)", "exempt: "+c15ExemptFields[key])
				r.Assume["exempt from the table walk: "+key+" — "+c15ExemptFields[key]] = true
			case !known:
				r.tableSoft(name, text, "shape of the case not recognised: undecided here; the bounded corpus exercises it")
			default:
				r.table(name, false, text, "the case for *ast."+tname+" passes it to none of read / write / admin")
			}
		}
	}
	// StatementKind: one case per statement type, distinct kinds, schema verbs -> the seven DDL kinds
	{
		ddl := map[string]bool{"StmtCreateTable": true, "StmtDropTable": true, "StmtAlterTable": true, "StmtCreateIndex": true, "StmtDropIndex": true, "StmtCreateView": true, "StmtDropView": true}
		kindOf := map[string]string{}
		ast.Inspect(ksrc.Decl.Body, func(n ast.Node) bool {
			cc, ok := n.(*ast.CaseClause)
			if !ok {
				return true
			}
			ret := ""
			if len(cc.Body) == 1 {
				if rs, ok := cc.Body[0].(*ast.ReturnStmt); ok && len(rs.Results) == 1 {
					ret = identName(rs.Results[0])
				}
			}
			for _, te := range cc.List {
				if st, ok := te.(*ast.StarExpr); ok {
					if sel, ok := st.X.(*ast.SelectorExpr); ok {
						kindOf[sel.Sel.Name] = ret
					}
				}
			}
			return true
		})
		var bad []string
		seen := map[string]string{}
		for _, named := range stmtTypes {
			tname := named.Obj().Name()
			k := kindOf[tname]
			switch {
			case k == "" || k == "StmtUnknown":
				bad = append(bad, tname+" has no kind")
			case seen[k] != "":
				bad = append(bad, tname+" and "+seen[k]+" share "+k)
			}
			seen[k] = tname
			verb := strings.HasPrefix(tname, "Create") || strings.HasPrefix(tname, "Drop") || strings.HasPrefix(tname, "Alter")
			if verb != ddl[k] {
				bad = append(bad, fmt.Sprintf("%s -> %s: schema-changing statement and DDL kind do not agree", tname, k))
			}
		}
		sort.Strings(bad)
		r.table("C15/kinds", len(bad) == 0 && len(stmtTypes) > 0, "StatementKind() gives every statement type its own kind, and the CREATE / DROP / ALTER statements exactly the seven kinds isSchemaAlteringKind lists", fmt.Sprintf("%d statement types; %s", len(stmtTypes), strings.Join(bad, "; ")))
	}
	// TableUsage literals
	{
		var bad []string
		lits := 0
		tu := spk.Types.Scope().Lookup("TableUsage")
		for _, f := range spk.Syntax {
			if strings.HasSuffix(fset.Position(f.Pos()).Filename, "_test.go") {
				continue
			}
			ast.Inspect(f, func(n ast.Node) bool {
				cl, ok := n.(*ast.CompositeLit)
				if !ok || tu == nil {
					return true
				}
				if t := spk.TypesInfo.TypeOf(cl); t == nil || !types.Identical(t, tu.Type()) {
					return true
				}
				lits++
				usage := ""
				for _, e := range cl.Elts {
					if kv, ok := e.(*ast.KeyValueExpr); ok && identName(kv.Key) == "Usage" {
						usage = identName(kv.Value)
					}
				}
				if usage != "UsageRead" && usage != "UsageWrite" && usage != "UsageAdmin" {
					bad = append(bad, fset.Position(cl.Pos()).String()+": Usage is "+usage)
				}
				return true
			})
		}
		r.table("C15/usage-literals", len(bad) == 0 && lits > 0, "every TableUsage literal names one of UsageRead / UsageWrite / UsageAdmin (what the trusted contract on Tables() says)", fmt.Sprintf("%d literals; %s", lits, strings.Join(bad, "; ")))
	}
	sort.Strings(exemptUsed)

	// ---- bounded corpus on the real code ----
	os.Setenv("GOVC_TIER", r.Tier)
	bound := "quick: 80 statement templates (every expression position of SELECT / INSERT / UPDATE / DELETE / CREATE TABLE AS / CREATE VIEW / CREATE INDEX) x 56 expression wrappers x 14 subquery forms, one subquery form per (template, wrapper) pair plus every form under the plain wrapper (about 5 300 statements, both dialects); thorough: the full product (about 60 000); 18 DDL / transaction statements"
	r.boundedGoTest("C15-corpus", "for every generated statement that parses: Tables() reports the table the subquery reads, every table reference a reflection walk finds (outside exempt positions and in-scope WITH names), and the statement's own target with its usage; kinds are classified", bound)
	r.boundedGoTest("C15-endtoend", "a caller without the permission a statement needs is refused by both SQL endpoints, on a real restricted SQLite DSN; what the caller may do is accepted",
		"34 statements x {@sql, sql task, readrows task}, 4 batches mixing verbs, 2 transaction scripts that re-bind a symbol between two runs of the same task; one fixed set of grants")
	// which node-bearing fields the corpus reached
	for _, o := range r.Extra {
		if o.Name != "bounded/C15-corpus" {
			continue
		}
		for _, line := range strings.Split(o.Output, "\n") {
			i := strings.Index(line, "REACHED ")
			if i < 0 {
				continue
			}
			reached := map[string]bool{}
			for _, f := range strings.Fields(line[i+8:]) {
				reached[f] = true
			}
			var unreached []string
			for f := range allFields {
				if !reached[f] && c15ExemptFields[f] == "" {
					unreached = append(unreached, f)
				}
			}
			sort.Strings(unreached)
			r.Notes = append(r.Notes, fmt.Sprintf("bounded corpus: %d of %d node-bearing fields held a node in some statement; not reached: %s", len(allFields)-len(unreached), len(allFields), strings.Join(unreached, " ")))
		}
	}
	r.Notes = append(r.Notes, fmt.Sprintf("C15 scan: %d node types, %d statement types, %d Children() methods analysed, %d node-bearing fields", len(nodeTypes), len(stmtTypes), nChildren, len(allFields)))
	return nil
}

func mentions(body *ast.BlockStmt, field string) bool {
	found := false
	ast.Inspect(body, func(n ast.Node) bool {
		if s, ok := n.(*ast.SelectorExpr); ok && s.Sel.Name == field {
			found = true
		}
		return !found
	})
	return found
}
