package main

import (
	"go/ast"
	"go/token"
	"go/types"
	"sort"
	"strings"

	"golang.org/x/tools/go/packages"
	"golang.org/x/tools/go/types/typeutil"
)

// Frame answers "may a call to g modify location k?" from a writer index and a call graph
// computed over the typed syntax of every loaded module package (DESIGN.md §3.5).
type Frame struct {
	prog   *Program
	nodes  map[*types.Func]*fnode
	inits  map[*types.Var]globalInit // package-level variable initialisers
	esc    []*fnode                  // escaping set E
	reachE map[*fnode]bool
	wE     *wset // everything reachable from E writes
	memo   map[*fnode]*wset
	ifaceMethodNames map[string]bool
	addrTaken map[types.Object]bool // fields / globals whose address is taken somewhere
	reflectHits []string
	litNodes []*fnode
	frameMemo map[string]frameRes
	usedTrustedFrames map[string]bool
	fnArgs    []fnArg
	litByAST  map[*ast.FuncLit]*fnode
	named     []*types.Named
	implCache map[string][]*fnode
	wLight    *wset // what the "light" callback methods (reachable from leaf library code) write
	heavyNames map[string]bool
	heavyList  []string
}

type globalInit struct {
	pkg  *packages.Package
	expr ast.Expr
	spec *ast.ValueSpec
	idx  int
}

type wset struct {
	vars  map[*types.Var]bool // fields and globals written
	fresh map[*types.Var]bool // fields written only on storage the writer created itself (see framefresh.go)
	maps  map[string]bool     // map type ids written (insert/delete)
	ptrs  map[string]bool     // pointee type ids written through *p
	all   bool
}

func newWset() *wset {
	return &wset{vars: map[*types.Var]bool{}, fresh: map[*types.Var]bool{}, maps: map[string]bool{}, ptrs: map[string]bool{}}
}

func (w *wset) add(o *wset) {
	for k := range o.vars {
		w.vars[k] = true
	}
	for k := range o.fresh {
		w.fresh[k] = true
	}
	for k := range o.maps {
		w.maps[k] = true
	}
	for k := range o.ptrs {
		w.ptrs[k] = true
	}
	if o.all {
		w.all = true
	}
}

type fnode struct {
	fn       *types.Func
	callees  []*types.Func // static module callees
	isLit    bool          // a function literal (fn = enclosing function, for naming)
	lits     []*fnode      // function literals inside this function
	dynamic  bool          // has interface-method or func-value call
	external bool          // calls out of the module into code that may call back anything escaping
	leafExt  bool          // calls out of the module into leaf library code (see isLeafExternal)
	extIface map[string]bool // names of methods called through interfaces declared outside the module
	extIfaceFns []*types.Func
	ifaceCalls  []*types.Func // methods called through interfaces declared in the module
	dynSigs     []string      // signatures of function values called
	params      map[types.Object]int
	paramCalls  []int    // indices of func-typed parameters that are called
	paramCallSigs []string
	sig         string        // (literals) own signature
	dynTargets  []*fnode      // resolved targets of dynamic calls (framedyn.go)
	frames      []*wset       // frames of interface methods called that carry a contract
	writes   *wset
}

func mapTypeID(m *types.Map) string {
	return smtIdent(types.TypeString(m, func(p *types.Package) string { return p.Name() }))
}

func inModule(p *types.Package) bool {
	return p != nil && strings.HasPrefix(p.Path(), "github.com/tucats/ego")
}

func BuildFrame(prog *Program) *Frame {
	f := &Frame{prog: prog, nodes: map[*types.Func]*fnode{}, inits: map[*types.Var]globalInit{}, memo: map[*fnode]*wset{}, ifaceMethodNames: map[string]bool{}, addrTaken: map[types.Object]bool{}, frameMemo: map[string]frameRes{}}
	// interface method names across the whole loaded program
	for _, pk := range prog.Pkgs {
		if pk.Types == nil {
			continue
		}
		sc := pk.Types.Scope()
		for _, n := range sc.Names() {
			if tn, ok := sc.Lookup(n).(*types.TypeName); ok {
				if it, ok := tn.Type().Underlying().(*types.Interface); ok {
					for i := 0; i < it.NumMethods(); i++ {
						f.ifaceMethodNames[it.Method(i).Name()] = true
					}
				}
			}
		}
	}
	valueTaken := map[*types.Func]bool{}
	var paths []string
	for p := range prog.Pkgs {
		paths = append(paths, p)
	}
	sort.Strings(paths)
	for _, path := range paths {
		pk := prog.Pkgs[path]
		if !strings.HasPrefix(path, "github.com/tucats/ego") || pk.TypesInfo == nil {
			continue
		}
		info := pk.TypesInfo
		for _, file := range pk.Syntax {
			fname := prog.Fset.Position(file.Pos()).Filename
			if strings.HasSuffix(fname, "_test.go") {
				continue
			}
			for _, d := range file.Decls {
				switch d := d.(type) {
				case *ast.GenDecl:
					if d.Tok != token.VAR {
						continue
					}
					for _, sp := range d.Specs {
						vs := sp.(*ast.ValueSpec)
						for i, nm := range vs.Names {
							v, _ := info.Defs[nm].(*types.Var)
							if v == nil {
								continue
							}
							if len(vs.Values) == len(vs.Names) {
								f.inits[v] = globalInit{pk, vs.Values[i], vs, i}
							} else if len(vs.Values) == 0 {
								f.inits[v] = globalInit{pk, nil, vs, i}
							}
						}
						// function values taken inside initialisers
						for _, val := range vs.Values {
							f.scanBody(pk, nil, val, valueTaken)
						}
					}
				case *ast.FuncDecl:
					obj, _ := info.Defs[d.Name].(*types.Func)
					if obj == nil || d.Body == nil {
						continue
					}
					n := &fnode{fn: obj, writes: newWset(), params: paramIndex(obj.Type().(*types.Signature))}
					f.nodes[obj] = n
					f.scanBody(pk, n, d.Body, valueTaken)
				}
			}
		}
	}
	// escaping set
	for fn, n := range f.nodes {
		sig := fn.Type().(*types.Signature)
		if valueTaken[fn] {
			f.esc = append(f.esc, n)
			continue
		}
		if sig.Recv() != nil && f.ifaceMethodNames[fn.Name()] {
			f.esc = append(f.esc, n)
			continue
		}
		if fn.Name() == "init" || fn.Name() == "main" {
			continue
		}
	}
	sort.Slice(f.esc, func(i, j int) bool { return f.esc[i].fn.FullName() < f.esc[j].fn.FullName() })
	f.esc = append(f.esc, f.litNodes...)
	f.resolveDynamic(valueTaken)
	// closure from E
	f.reachE = map[*fnode]bool{}
	f.wE = newWset()
	var stack []*fnode
	for _, n := range f.esc {
		if !f.reachE[n] {
			f.reachE[n] = true
			stack = append(stack, n)
		}
	}
	for len(stack) > 0 {
		n := stack[len(stack)-1]
		stack = stack[:len(stack)-1]
		f.wE.add(n.writes)
		npkg := ""
		if n.fn != nil && n.fn.Pkg() != nil {
			npkg = n.fn.Pkg().Path()
		}
		for _, c := range n.callees {
			if ws, ok := f.frameOf(c, npkg); ok && !ws.all {
				f.wE.add(ws)
				continue
			}
			if cn := f.nodes[c]; cn != nil && !f.reachE[cn] {
				f.reachE[cn] = true
				stack = append(stack, cn)
			}
		}
		for _, l := range append(append([]*fnode{}, n.lits...), n.dynTargets...) {
			if !f.reachE[l] {
				f.reachE[l] = true
				stack = append(stack, l)
			}
		}
		for _, ws := range n.frames {
			f.wE.add(ws)
		}
	}
	f.computeLight()
	return f
}

// computeLight determines which module methods library code can reach through its own interfaces
// ("light" callbacks: String, Error, MarshalJSON, Write, Close, ...) and what they write. A method of that
// kind whose own call closure contains an in-module dynamic call or a non-leaf external call is "heavy"
// (ServeHTTP, RoundTrip, ...): leaf library code is assumed never to invoke a heavy method.
func (f *Frame) computeLight() {
	// The interfaces through which leaf library code (formatting, encoding, I/O, sorting, errors, SQL value
	// conversion, HTTP response writing) inspects or drives the values it is handed. Driver / handler / transport
	// interfaces are not in this list: the module registers no database driver, and handlers run only from the
	// server entry points (nonLeafFuncs).
	extNames := map[string]bool{"Error": true}
	for path, names := range map[string][]string{
		"fmt":              {"Stringer", "GoStringer", "Formatter", "State", "Scanner"},
		"errors":           {},
		"encoding":         {"TextMarshaler", "TextUnmarshaler", "BinaryMarshaler", "BinaryUnmarshaler"},
		"encoding/json":    {"Marshaler", "Unmarshaler"},
		"io":               {"Reader", "Writer", "Closer", "Seeker", "ReaderAt", "WriterAt", "ReaderFrom", "WriterTo", "ByteReader", "ByteWriter", "RuneReader", "StringWriter", "ReadCloser", "WriteCloser", "ReadWriter", "ReadWriteCloser"},
		"io/fs":            {"FS", "File", "FileInfo", "DirEntry"},
		"sort":             {"Interface"},
		"flag":             {"Value"},
		"database/sql":     {"Scanner"},
		"database/sql/driver": {"Valuer"},
		"net/http":         {"ResponseWriter", "Flusher", "Hijacker", "Pusher", "CloseNotifier"},
		"hash":             {"Hash"},
		"context":          {"Context"},
		"log/slog":         {"LogValuer"},
	} {
		pk := f.prog.Pkgs[path]
		if pk == nil || pk.Types == nil {
			continue
		}
		for _, n := range names {
			if tn, ok := pk.Types.Scope().Lookup(n).(*types.TypeName); ok {
				if it, ok := tn.Type().Underlying().(*types.Interface); ok {
					for i := 0; i < it.NumMethods(); i++ {
						extNames[it.Method(i).Name()] = true
					}
				}
			}
		}
	}
	for _, n := range []string{"Unwrap", "Is", "As", "Error"} {
		extNames[n] = true
	}
	f.heavyNames = map[string]bool{}
	var cands []*fnode
	for fn, n := range f.nodes {
		if leafNeverCalls[fn.Name()] {
			f.heavyNames[fn.Name()] = true // request/transport entry points: only server/client functions (non-leaf) run them
			continue
		}
		if fn.Type().(*types.Signature).Recv() != nil && extNames[fn.Name()] {
			cands = append(cands, n)
		}
	}
	sort.Slice(cands, func(i, j int) bool { return cands[i].fn.FullName() < cands[j].fn.FullName() })
	var frames []*wset
	closure := func(n *fnode) (nodes []*fnode, heavy bool) {
		frames = nil
		seen := map[*fnode]bool{n: true}
		stack := []*fnode{n}
		for len(stack) > 0 {
			c := stack[len(stack)-1]
			stack = stack[:len(stack)-1]
			nodes = append(nodes, c)
			pkgOf := ""
			if c.fn != nil && c.fn.Pkg() != nil {
				pkgOf = c.fn.Pkg().Path()
			}
			if c.dynamic || c.external {
				heavy = true
			}
			for _, ic := range c.ifaceCalls {
				if ws, ok := f.frameOf(ic, pkgOf); !ok || ws.all {
					heavy = true
				}
			}
			for _, ef := range c.extIfaceFns {
				if ws, ok := f.frameOf(ef, pkgOf); ok && !ws.all {
					continue
				}
				if f.heavyNames[ef.Name()] {
					heavy = true
				}
			}
			for _, cal := range c.callees {
				if ws, ok := f.frameOf(cal, pkgOf); ok {
					if ws.all {
						heavy = true
					}
					frames = append(frames, ws)
					continue
				}
				if cn := f.nodes[cal]; cn != nil && !seen[cn] {
					seen[cn] = true
					stack = append(stack, cn)
				}
			}
			for _, l := range append(append([]*fnode{}, c.lits...), c.dynTargets...) {
				if !seen[l] {
					seen[l] = true
					stack = append(stack, l)
				}
			}
			for _, ws := range c.frames {
				if ws.all {
					heavy = true
				}
				frames = append(frames, ws)
			}
		}
		return
	}
	for changed := true; changed; {
		changed = false
		for _, c := range cands {
			if f.heavyNames[c.fn.Name()] {
				continue
			}
			if _, heavy := closure(c); heavy {
				f.heavyNames[c.fn.Name()] = true
				changed = true
			}
		}
	}
	f.wLight = newWset()
	for _, c := range cands {
		if f.heavyNames[c.fn.Name()] {
			continue
		}
		nodes, _ := closure(c)
		for _, n := range nodes {
			f.wLight.add(n.writes)
		}
		for _, ws := range frames {
			f.wLight.add(ws)
		}
	}
	for name := range f.heavyNames {
		f.heavyList = append(f.heavyList, name)
	}
	sort.Strings(f.heavyList)
}

// scanBody records calls, writes and function values taken in a body (function literals are attributed to the enclosing function).
func (f *Frame) scanBody(pk *packages.Package, n *fnode, body ast.Node, valueTaken map[*types.Func]bool) {
	info := pk.TypesInfo
	callFuns := map[ast.Expr]bool{}
	fl := freshLocals(info, body)
	extLocals := extResultLocals(info, body)
	var recordWrite func(e ast.Expr)
	recordWrite = func(e ast.Expr) {
		if n == nil {
			return
		}
		switch x := ast.Unparen(e).(type) {
		case *ast.Ident:
			if v, ok := info.Uses[x].(*types.Var); ok && v.Pkg() != nil && v.Parent() == v.Pkg().Scope() {
				n.writes.vars[v] = true
			}
		case *ast.SelectorExpr:
			if sel, ok := info.Selections[x]; ok && sel.Kind() == types.FieldVal {
				if v, ok := sel.Obj().(*types.Var); ok {
					if freshBase(info, fl, x.X) && len(sel.Index()) == 1 {
						n.writes.fresh[v.Origin()] = true
					} else {
						n.writes.vars[v.Origin()] = true
					}
				}
			} else if v, ok := info.Uses[x.Sel].(*types.Var); ok && v.Pkg() != nil && v.Parent() == v.Pkg().Scope() {
				n.writes.vars[v] = true
			}
		case *ast.IndexExpr:
			if t := info.TypeOf(x.X); t != nil {
				if mt, ok := t.Underlying().(*types.Map); ok {
					n.writes.maps[mapTypeID(mt)] = true
					return
				}
			}
			recordWrite(x.X) // element store = write of the slice-valued location
		case *ast.StarExpr:
			if t := info.TypeOf(x); t != nil {
				if st, ok := t.Underlying().(*types.Struct); ok {
					for i := 0; i < st.NumFields(); i++ {
						n.writes.vars[st.Field(i).Origin()] = true
					}
				} else {
					n.writes.ptrs[smtIdent(types.TypeString(t, nil))] = true
				}
			}
		}
	}
	// calls that start a goroutine: under the sequential semantics the checks assume, what the goroutine does is
	// not an effect of the call that spawns it (its arguments are still evaluated by the spawner)
	spawned := map[*ast.CallExpr]bool{}
	ast.Inspect(body, func(m ast.Node) bool {
		if g, ok := m.(*ast.GoStmt); ok {
			spawned[g.Call] = true
		}
		return true
	})
	var visit func(m ast.Node) bool
	visit = func(m ast.Node) bool {
		switch x := m.(type) {
		case *ast.CallExpr:
			callFuns[ast.Unparen(x.Fun)] = true
			if spawned[x] {
				if lit, isLit := ast.Unparen(x.Fun).(*ast.FuncLit); isLit {
					child := &fnode{writes: newWset(), isLit: true}
					if ls, ok := info.TypeOf(lit).(*types.Signature); ok {
						child.sig = sigKey(ls)
						child.params = paramIndex(ls)
					}
					if f.litByAST == nil {
						f.litByAST = map[*ast.FuncLit]*fnode{}
					}
					f.litByAST[lit] = child
					if n != nil {
						child.fn = n.fn
					}
					f.litNodes = append(f.litNodes, child)
					f.scanBody(pk, child, lit.Body, valueTaken)
				} else if sel, ok := ast.Unparen(x.Fun).(*ast.SelectorExpr); ok {
					ast.Inspect(sel.X, visit)
				}
				for _, a := range x.Args {
					ast.Inspect(a, visit)
				}
				return false
			}
			if tv, ok := info.Types[x.Fun]; ok && tv.IsType() {
				return true
			}
			callee := typeutil.Callee(info, x)
			switch c := callee.(type) {
			case *types.Builtin:
				if n != nil && (c.Name() == "delete" || c.Name() == "clear") && len(x.Args) > 0 {
					if t := info.TypeOf(x.Args[0]); t != nil {
						if mt, ok := t.Underlying().(*types.Map); ok {
							n.writes.maps[mapTypeID(mt)] = true
						}
					}
				}
				if n != nil && c.Name() == "copy" && len(x.Args) > 0 {
					recordWrite(x.Args[0])
				}
			case *types.Func:
				if n == nil {
					return true
				}
				if sig, ok := c.Type().(*types.Signature); ok && sig.Recv() != nil && isInterface(sig.Recv().Type()) {
					if !inModule(c.Pkg()) {
						// method of an interface declared outside the module (io.Reader, http.ResponseWriter, error, ...):
						// implemented by library types or by module methods of that name
						if n.extIface == nil {
							n.extIface = map[string]bool{}
						}
						n.extIface[c.Name()] = true
						n.extIfaceFns = append(n.extIfaceFns, c)
						return true
					}
					// method of a module interface: dynamic, unless the interface method carries a contract with a frame
					n.ifaceCalls = append(n.ifaceCalls, c)
					return true
				}
				if inModule(c.Pkg()) {
					n.callees = append(n.callees, c.Origin())
					// function values passed to a module callee (resolves calls of func-typed parameters there)
					for i, a := range x.Args {
						at := info.TypeOf(a)
						if at == nil {
							continue
						}
						if _, isFunc := at.Underlying().(*types.Signature); !isFunc {
							continue
						}
						fa := fnArg{callee: c.Origin(), idx: i}
						switch av := ast.Unparen(a).(type) {
						case *ast.FuncLit:
							fa.lit = av
						case *ast.Ident:
							if fo, ok := info.Uses[av].(*types.Func); ok {
								fa.fn = fo.Origin()
							}
						case *ast.SelectorExpr:
							if fo, ok := info.Uses[av.Sel].(*types.Func); ok {
								fa.fn = fo.Origin()
							}
						}
						f.fnArgs = append(f.fnArgs, fa)
					}
				} else {
					switch {
					case callbackFuncs[c.FullName()]:
						// library function that calls exactly the function values it is given: literals are already
						// child nodes of n; named functions become static edges; anything else is a dynamic call
						n.leafExt = true
						for _, a := range x.Args {
							at := info.TypeOf(a)
							if at == nil {
								continue
							}
							if _, isFunc := at.Underlying().(*types.Signature); !isFunc {
								continue
							}
							switch av := ast.Unparen(a).(type) {
							case *ast.FuncLit:
							case *ast.Ident:
								if fo, ok := info.Uses[av].(*types.Func); ok && inModule(fo.Pkg()) {
									n.callees = append(n.callees, fo.Origin())
								} else {
									n.dynamic = true
								}
							case *ast.SelectorExpr:
								if fo, ok := info.Uses[av.Sel].(*types.Func); ok && inModule(fo.Pkg()) {
									n.callees = append(n.callees, fo.Origin())
								} else {
									n.dynamic = true
								}
							default:
								n.dynamic = true
							}
						}
					case isLeafExternal(c):
						n.leafExt = true
					default:
						n.external = true
					}
					// pointers to module structs handed to external code may be filled by reflection
					for _, a := range x.Args {
						f.reflectWrite(info, fl, n, a)
					}
				}
			default:
				if n != nil {
					// call of a function value: reachable targets are the escaping functions of that signature
					if _, isLit := ast.Unparen(x.Fun).(*ast.FuncLit); isLit {
						// immediately-invoked / go / defer literal: it is a child node of n already
					} else if id, isID := ast.Unparen(x.Fun).(*ast.Ident); isID && n.params != nil && hasParam(n.params, info.Uses[id]) {
						n.paramCalls = append(n.paramCalls, n.params[info.Uses[id]]) // resolved from the call sites of n
						if sig, ok := info.TypeOf(x.Fun).Underlying().(*types.Signature); ok {
							n.paramCallSigs = append(n.paramCallSigs, sigKey(sig))
						}
					} else if id, isID := ast.Unparen(x.Fun).(*ast.Ident); isID && extLocals[info.Uses[id]] {
						n.leafExt = true // a function value produced by library code (context cancel functions, ...)
					} else if sig, ok := info.TypeOf(x.Fun).Underlying().(*types.Signature); ok {
						n.dynSigs = append(n.dynSigs, sigKey(sig))
					} else {
						n.dynamic = true
					}
				}
			}
		case *ast.AssignStmt:
			if x.Tok != token.DEFINE {
				for _, l := range x.Lhs {
					recordWrite(l)
				}
			}
		case *ast.FuncLit:
			// a function literal is its own node: it may escape and be called by anyone (it is in E),
			// and the enclosing function may call it (edge), but the enclosing function does not become escaping
			child := &fnode{writes: newWset(), isLit: true}
			if ls, ok := info.TypeOf(x).(*types.Signature); ok {
				child.sig = sigKey(ls)
				child.params = paramIndex(ls)
			}
			if f.litByAST == nil {
				f.litByAST = map[*ast.FuncLit]*fnode{}
			}
			f.litByAST[x] = child
			if n != nil {
				child.fn = n.fn
				n.lits = append(n.lits, child)
			}
			f.litNodes = append(f.litNodes, child)
			f.scanBody(pk, child, x.Body, valueTaken)
			return false
		case *ast.IncDecStmt:
			recordWrite(x.X)
		case *ast.RangeStmt:
			if x.Tok == token.ASSIGN {
				if x.Key != nil {
					recordWrite(x.Key)
				}
				if x.Value != nil {
					recordWrite(x.Value)
				}
			}
		case *ast.UnaryExpr:
			if x.Op == token.AND {
				switch y := ast.Unparen(x.X).(type) {
				case *ast.SelectorExpr:
					if sel, ok := info.Selections[y]; ok && sel.Kind() == types.FieldVal {
						f.addrTaken[sel.Obj().(*types.Var).Origin()] = true
					} else if v, ok := info.Uses[y.Sel].(*types.Var); ok {
						f.addrTaken[v] = true
					}
				case *ast.Ident:
					if v, ok := info.Uses[y].(*types.Var); ok && v.Pkg() != nil && v.Parent() == v.Pkg().Scope() {
						f.addrTaken[v] = true
					}
				}
			}
		}
		return true
	}
	ast.Inspect(body, visit)
	// function values taken (identifier/selector denoting a func, not in call position)
	calledIdents := map[*ast.Ident]bool{}
	ast.Inspect(body, func(m ast.Node) bool {
		if _, isLit := m.(*ast.FuncLit); isLit {
			return false // a nested literal is scanned as its own node
		}
		e, ok := m.(ast.Expr)
		if !ok {
			return true
		}
		if callFuns[e] {
			// still descend: receiver expression may contain values; the method/function name itself is in call position
			if sel, ok := e.(*ast.SelectorExpr); ok {
				calledIdents[sel.Sel] = true
			}
			return true
		}
		switch x := e.(type) {
		case *ast.Ident:
			if calledIdents[x] {
				return true
			}
			if fn, ok := info.Uses[x].(*types.Func); ok && inModule(fn.Pkg()) {
				valueTaken[fn.Origin()] = true
			}
		case *ast.SelectorExpr:
			if fn, ok := info.Uses[x.Sel].(*types.Func); ok && inModule(fn.Pkg()) {
				valueTaken[fn.Origin()] = true
				return true
			}
		}
		return true
	})
}

// reflectWrite: &T or *T argument to an external function: exported fields of T may be set by reflection.
func (f *Frame) reflectWrite(info *types.Info, fl map[types.Object]bool, n *fnode, a ast.Expr) {
	t := info.TypeOf(a)
	if t == nil {
		return
	}
	if p, ok := t.Underlying().(*types.Pointer); ok {
		if st, ok := p.Elem().Underlying().(*types.Struct); ok {
			fresh := false
			switch x := ast.Unparen(a).(type) {
			case *ast.Ident:
				fresh = freshBase(info, fl, x)
			case *ast.UnaryExpr:
				if x.Op == token.AND {
					if _, isLit := ast.Unparen(x.X).(*ast.CompositeLit); isLit {
						fresh = true
					} else {
						fresh = freshBase(info, fl, x.X)
					}
				}
			}
			markReflect(n.writes, st, fresh, 0)
		}
	}
}

// writesOf returns the transitive write set of a module function (including E's when it can reach dynamic/external calls).
func (f *Frame) writesOf(n *fnode) *wset {
	if w, ok := f.memo[n]; ok {
		return w
	}
	w := newWset()
	f.memo[n] = w // breaks recursion (cycles see a partial set; the fixpoint below repairs it)
	seen := map[*fnode]bool{n: true}
	stack := []*fnode{n}
	usesE, usesLight := false, false
	for len(stack) > 0 {
		c := stack[len(stack)-1]
		stack = stack[:len(stack)-1]
		w.add(c.writes)
		pkgOf := ""
		if c.fn != nil && c.fn.Pkg() != nil {
			pkgOf = c.fn.Pkg().Path()
		}
		if c.dynamic || c.external {
			usesE = true
		}
		if c.leafExt {
			usesLight = true
		}
		for _, ic := range c.ifaceCalls {
			if ws, ok := f.frameOf(ic, pkgOf); ok {
				w.add(ws)
				if ws.all {
					usesE = true
				}
			} else {
				usesE = true
			}
		}
		for _, ef := range c.extIfaceFns {
			if ws, ok := f.frameOf(ef, pkgOf); ok {
				w.add(ws)
				if ws.all {
					usesE = true
				}
			} else if f.heavyNames[ef.Name()] {
				usesE = true
			} else {
				usesLight = true
			}
		}
		for _, cal := range c.callees {
			if ws, ok := f.frameOf(cal, pkgOf); ok {
				w.add(ws) // callee under a contract with a frame: its assigns clause, not its body
				if ws.all {
					usesE = true
				}
				continue
			}
			if cn := f.nodes[cal]; cn != nil && !seen[cn] {
				seen[cn] = true
				stack = append(stack, cn)
			}
		}
		for _, l := range append(append([]*fnode{}, c.lits...), c.dynTargets...) {
			if !seen[l] {
				seen[l] = true
				stack = append(stack, l)
			}
		}
		for _, ws := range c.frames {
			w.add(ws)
			if ws.all {
				usesE = true
			}
		}
	}
	if usesE {
		w.add(f.wE)
	} else if usesLight && f.wLight != nil {
		w.add(f.wLight)
	}
	return w
}

// Leaf library code: standard-library and third-party packages that call back into the module only
// through methods of interfaces they declare themselves (String, Error, MarshalJSON, Write, ...), applied to
// values they are handed -- never through the server's request dispatch. A call into such a package may
// therefore run only the "light" callback methods (computed below), not everything that escapes.
// Functions of net/http that run handlers or transports are excluded.
var leafPkgPrefixes = []string{
	"strings", "bytes", "strconv", "errors", "time", "path", "os", "unicode", "math", "encoding/", "crypto/", "hash", "io",
	"fmt", "sync", "regexp", "slices", "maps", "sort", "net/url", "mime", "compress/", "log", "bufio", "reflect", "runtime",
	"net/http", "net/textproto", "html", "text/", "container/", "context", "unsafe", "iter", "cmp", "net/netip", "net",
	"golang.org/x/crypto/", "golang.org/x/text/", "golang.org/x/term", "github.com/google/uuid", "github.com/golang-jwt/jwt",
	"gopkg.in/resty.v1", "github.com/araddon/dateparse", "github.com/go-webauthn/webauthn", "github.com/shirou/gopsutil", "github.com/chzyer/readline",
	"github.com/gomarkdown/markdown", "github.com/brandenc40/romannumeral", "github.com/DmitriyVTitov/size", "github.com/stretchr/testify", "golang.org/x/",
	"github.com/tucats/subs", "github.com/tucats/jaxon", "github.com/tucats/termgen", "github.com/tucats/validator", "database/sql", "github.com/mattn/go-sqlite3", "github.com/lib/pq", "modernc.org/sqlite",
}

var nonLeafFuncs = map[string]bool{
	"net/http.ListenAndServe": true, "net/http.ListenAndServeTLS": true, "net/http.Serve": true, "net/http.ServeTLS": true,
	"(*net/http.Server).ListenAndServe": true, "(*net/http.Server).ListenAndServeTLS": true, "(*net/http.Server).Serve": true, "(*net/http.Server).ServeTLS": true,
	"(*net/http.ServeMux).ServeHTTP": true, "(net/http.HandlerFunc).ServeHTTP": true, "(net/http.Handler).ServeHTTP": true,
	"(*net/http.Client).Do": true, "(*net/http.Client).Get": true, "(*net/http.Client).Post": true, "net/http.Get": true, "net/http.Post": true,
	"sort.Sort": true, "sort.Stable": true, "time.AfterFunc": true,
}

// leafNeverCalls: methods of handler-style library interfaces (http.Handler, http.RoundTripper). Only the
// server / client entry points listed in nonLeafFuncs invoke them; leaf library code never does.
var leafNeverCalls = map[string]bool{"ServeHTTP": true, "RoundTrip": true}

// callbackFuncs: library functions that synchronously call exactly the function values passed to them.
var callbackFuncs = map[string]bool{
	"sort.Slice": true, "sort.SliceStable": true, "slices.SortFunc": true, "slices.SortStableFunc": true,
	"(*sync.Once).Do": true, "path/filepath.Walk": true, "path/filepath.WalkDir": true, "io/fs.WalkDir": true,
	"strings.Map": true, "strings.FieldsFunc": true, "strings.IndexFunc": true, "strings.TrimFunc": true, "strings.TrimLeftFunc": true, "strings.TrimRightFunc": true, "bytes.Map": true,
	"(*regexp.Regexp).ReplaceAllStringFunc": true, "(*regexp.Regexp).ReplaceAllFunc": true, "slices.IndexFunc": true, "slices.ContainsFunc": true, "slices.DeleteFunc": true,
	"sync.OnceFunc": true, "sync.OnceValue": true,
}

func isLeafExternal(fn *types.Func) bool {
	if fn == nil || fn.Pkg() == nil {
		return false
	}
	if nonLeafFuncs[fn.FullName()] {
		return false // takes a callback or dispatches handlers: the callback's effects are the caller's
	}
	path := fn.Pkg().Path()
	for _, p := range leafPkgPrefixes {
		if path == strings.TrimSuffix(p, "/") || strings.HasPrefix(path, p) && (strings.HasSuffix(p, "/") || strings.HasPrefix(path, p+"/")) {
			return true
		}
	}
	return false
}

// HasWriters: does any non-test module function write this package-level variable / field?
func (f *Frame) HasWriters(v *types.Var) bool {
	if f.addrTaken[v] {
		return true
	}
	for _, n := range f.allNodes() {
		if n.writes.vars[v] {
			return true
		}
	}
	return false
}

// allNodes: declared functions and function literals.
func (f *Frame) allNodes() []*fnode {
	out := make([]*fnode, 0, len(f.nodes)+len(f.litNodes))
	for _, n := range f.nodes {
		out = append(out, n)
	}
	return append(out, f.litNodes...)
}

func (n *fnode) name() string {
	if n.fn == nil {
		return "(package initialiser literal)"
	}
	if n.isLit {
		return shortFuncName(n.fn.FullName()) + "$literal"
	}
	return shortFuncName(n.fn.FullName())
}

func (f *Frame) Writers(v *types.Var) []string {
	var out []string
	for _, n := range f.allNodes() {
		if n.writes.vars[v] || n.writes.fresh[v] {
			out = append(out, n.name())
		}
	}
	sort.Strings(out)
	return out
}

// MayWrite: may a call to fn (nil = dynamic call) modify heap key k of the function being verified?
func (f *Frame) MayWrite(fc *FnCtx, fn *types.Func, k any) bool {
	return f.WriteKind(fc, fn, k) != 0
}

// WriteKind: 0 = the call cannot write k; 1 = it can write k only on objects allocated during the call
// (fresh-only writers); 2 = it may write k on existing objects.
func (f *Frame) WriteKind(fc *FnCtx, fn *types.Func, k any) int {
	b2i := func(b bool) int {
		if b {
			return 2
		}
		return 0
	}
	var w *wset
	switch {
	case fn == nil:
		w = f.wE // dynamic: any escaping function
	case fn.Type().(*types.Signature).Recv() != nil && isInterface(fn.Type().(*types.Signature).Recv().Type()):
		// interface method: exactly the module methods of that name on types implementing the interface
		// (library implementations do not touch module state)
		w = newWset()
		for _, impl := range f.implementers(fn) {
			w.add(f.writesOf(impl))
		}
	case !inModule(fn.Pkg()):
		if callbackFuncs[fn.FullName()] {
			w = f.wE // runs the function values it is given; their effects are not tracked at the call site
		} else if isLeafExternal(fn) {
			w = f.wLight
			fc.assumptions[f.lightAssumption()] = true
		} else {
			w = f.wE // external code that runs callbacks / handlers: may call back into E
		}
	default:
		n := f.nodes[fn.Origin()]
		if n == nil {
			return 2 // no body (assembly/linkname): unknown
		}
		w = f.writesOf(n)
	}
	switch k := k.(type) {
	case heapKey:
		switch k.Kind {
		case "X":
			return b2i(k.ID == "clock")
		case "A":
			return 0
		case "F":
			v := fc.keyObj[k]
			if v == nil {
				return 2
			}
			if w.vars[v] || f.addrTaken[v] {
				return 2
			}
			if w.fresh[v] {
				return 1
			}
			return 0
		case "M":
			id := strings.TrimPrefix(strings.TrimPrefix(strings.TrimPrefix(k.ID, "dom_"), "val_"), "len_")
			return b2i(w.maps[id])
		case "P":
			return 2
		}
	case *types.Var:
		return b2i(w.vars[k] || f.addrTaken[k])
	}
	return 2
}
