package main

import (
	"sync"
	"fmt"
	"go/ast"
	"go/token"
	"go/types"
	"os"
	"os/exec"
	"path/filepath"
	"sort"
	"strings"

	"golang.org/x/tools/go/packages"
)

const goBin = "/opt/veriftools/go1.26.8/bin"

type Program struct {
	Repo      string
	Fset      *token.FileSet
	Pkgs      map[string]*packages.Package // by pkg path (all, incl. deps)
	Roots     []*packages.Package
	Contracts map[string]*PkgContracts // by pkg path
	FuncDecls map[string]*FuncSrc      // by FullName
	Scratch   string
	Overlay   map[string][]byte
	LoadErrs  []string
}

type FuncSrc struct {
	Pkg  *packages.Package
	Decl *ast.FuncDecl
	Obj  *types.Func
	File *ast.File
}

func goEnv() []string {
	env := []string{}
	for _, e := range os.Environ() {
		if strings.HasPrefix(e, "PATH=") || strings.HasPrefix(e, "GOFLAGS=") || strings.HasPrefix(e, "GOPROXY=") || strings.HasPrefix(e, "GOSUMDB=") || strings.HasPrefix(e, "GOTOOLCHAIN=") {
			continue
		}
		env = append(env, e)
	}
	env = append(env, "PATH="+goBin+":"+os.Getenv("PATH"), "GOFLAGS=-mod=mod", "GOPROXY=off", "GOSUMDB=off", "GOTOOLCHAIN=local")
	return env
}

// GenerateMessages regenerates internal/i18n/messages.go (git-ignored, absent) into scratch using /repo's own tools/lang.
func GenerateMessages(repo, scratch string) (string, error) {
	out := filepath.Join(scratch, "messages.go")
	cmd := exec.Command(filepath.Join(goBin, "go"), "run", "../../tools/lang/", "-c", "-p", "languages", "-s", out)
	cmd.Dir = filepath.Join(repo, "internal/i18n")
	cmd.Env = goEnv()
	b, err := cmd.CombinedOutput()
	if err != nil {
		return "", fmt.Errorf("tools/lang failed: %v\n%s", err, b)
	}
	return out, nil
}

func LoadProgram(repo, scratch string, patterns []string) (*Program, error) {
	p := &Program{Repo: repo, Pkgs: map[string]*packages.Package{}, Contracts: map[string]*PkgContracts{}, FuncDecls: map[string]*FuncSrc{}, Scratch: scratch, Overlay: map[string][]byte{}}
	msg, err := GenerateMessages(repo, scratch)
	if err != nil {
		return nil, err
	}
	mb, err := os.ReadFile(msg)
	if err != nil {
		return nil, err
	}
	p.Overlay[filepath.Join(repo, "internal/i18n/messages.go")] = mb
	p.Fset = token.NewFileSet()
	cfg := &packages.Config{
		Mode:       packages.NeedName | packages.NeedFiles | packages.NeedSyntax | packages.NeedTypes | packages.NeedTypesInfo | packages.NeedImports | packages.NeedDeps | packages.NeedCompiledGoFiles,
		Dir:        repo,
		Fset:       p.Fset,
		BuildFlags: []string{"-tags=verif"},
		Env:        goEnv(),
		Overlay:    p.Overlay,
	}
	roots, err := packages.Load(cfg, patterns...)
	if err != nil {
		return nil, err
	}
	p.Roots = roots
	packages.Visit(roots, nil, func(pk *packages.Package) {
		p.Pkgs[pk.PkgPath] = pk
		if strings.HasPrefix(pk.PkgPath, "github.com/tucats/ego") {
			for _, e := range pk.Errors {
				p.LoadErrs = append(p.LoadErrs, pk.PkgPath+": "+e.Error())
			}
		}
	})
	// index module function declarations and contract files
	var paths []string
	for path := range p.Pkgs {
		paths = append(paths, path)
	}
	sort.Strings(paths)
	for _, path := range paths {
		pk := p.Pkgs[path]
		if !strings.HasPrefix(path, "github.com/tucats/ego") || pk.TypesInfo == nil {
			continue
		}
		for _, f := range pk.Syntax {
			fname := p.Fset.Position(f.Pos()).Filename
			if strings.HasSuffix(fname, "_test.go") {
				continue
			}
			if filepath.Base(fname) == "zz_verif_contracts.go" {
				pc, err := ParseContractFile(fname, path)
				if err != nil {
					return nil, err
				}
				p.Contracts[path] = pc
			}
			for _, d := range f.Decls {
				fd, ok := d.(*ast.FuncDecl)
				if !ok {
					continue
				}
				obj, _ := pk.TypesInfo.Defs[fd.Name].(*types.Func)
				if obj == nil {
					continue
				}
				p.FuncDecls[obj.FullName()] = &FuncSrc{Pkg: pk, Decl: fd, Obj: obj, File: f}
			}
		}
	}
	return p, nil
}

// ContractFor finds the contract of a function by its FullName in any loaded contract file.
// The caller's own contract file wins (trusted contracts on dependencies are per package, because they
// speak in that package's ghost functions); then any other file, in a fixed order.
func (p *Program) ContractFor(fullName, callerPkg string) *FuncContract {
	if pc := p.Contracts[callerPkg]; pc != nil {
		if c, ok := pc.Funcs[fullName]; ok {
			// a trusted contract a caller's package writes on a function that is itself under contract in its
			// own package adds to that contract (extra preconditions for these callers, extra trusted
			// postconditions in this package's ghost vocabulary); it does not replace it
			if c.Trusted {
				if own := p.ownContract(fullName, callerPkg); own != nil {
					return p.mergedContract(c, own)
				}
			}
			return c
		}
	}
	var paths []string
	for path := range p.Contracts {
		paths = append(paths, path)
	}
	sort.Strings(paths)
	for _, path := range paths {
		if c, ok := p.Contracts[path].Funcs[fullName]; ok {
			if c.Trusted && !strings.HasPrefix(fullName, path+".") && !strings.Contains(fullName, path+".") {
				// a trusted contract on a dependency written for another package's ghosts: not applicable here
				continue
			}
			return c
		}
	}
	return nil
}

func (p *Program) IsPure(fullName string) bool {
	for _, pc := range p.Contracts {
		if pc.Pure[fullName] {
			return true
		}
	}
	return false
}

// ownContract: the (non-trusted) contract of fullName written in a package other than callerPkg.
func (p *Program) ownContract(fullName, callerPkg string) *FuncContract {
	var paths []string
	for path := range p.Contracts {
		paths = append(paths, path)
	}
	sort.Strings(paths)
	for _, path := range paths {
		if path == callerPkg {
			continue
		}
		if c, ok := p.Contracts[path].Funcs[fullName]; ok && !c.Trusted {
			return c
		}
	}
	return nil
}

var mergedMu sync.Mutex
var mergedContracts = map[[2]*FuncContract]*FuncContract{}

func (p *Program) mergedContract(extra, own *FuncContract) *FuncContract {
	mergedMu.Lock()
	defer mergedMu.Unlock()
	k := [2]*FuncContract{extra, own}
	if m, ok := mergedContracts[k]; ok {
		return m
	}
	m := *own
	m.MergedFrom = extra
	mergedContracts[k] = &m
	return &m
}
