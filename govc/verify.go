package main

import (
	"fmt"
	"go/ast"
	"go/token"
	"go/types"
	"sort"
	"strings"
)

type Engine struct {
	prog     *Program
	frame    *Frame
	guardOf  map[*types.Var]*guardInfo // guarded package variable -> its lock
	lockVars map[*types.Var]*guardInfo // guard lock variable -> info
	prop     string                    // the property being checked
}

// FuncResult is what verifying one function produced.
type FuncResult struct {
	Name        string
	Key         string
	Obls        []*Obligation
	Abstracted  []string
	Unbound     []string
	Unsupported []string
	Trusted     []string
	Assumptions []string
	Cmds        int
	Err         string
}

func shortFuncName(full string) string {
	s := strings.ReplaceAll(full, modInternal, "")
	s = strings.ReplaceAll(s, modRoot, "")
	// (*router.Session).Authenticate -> router.(*Session).Authenticate ; keep path's last element
	if strings.HasPrefix(s, "(") {
		end := strings.Index(s, ")")
		recv := s[1:end]
		star := ""
		if strings.HasPrefix(recv, "*") {
			star = "*"
			recv = recv[1:]
		}
		dot := strings.LastIndex(recv, ".")
		pk := recv[:dot]
		if i := strings.LastIndex(pk, "/"); i >= 0 {
			pk = pk[i+1:]
		}
		return pk + ".(" + star + recv[dot+1:] + ")" + s[end+1:]
	}
	dot := strings.LastIndex(s, ".")
	if dot < 0 {
		return s
	}
	pk := s[:dot]
	if i := strings.LastIndex(pk, "/"); i >= 0 {
		pk = pk[i+1:]
	}
	return pk + s[dot:]
}

func (eng *Engine) newFnCtx(src *FuncSrc, c *FuncContract) *FnCtx {
	fc := &FnCtx{eng: eng, prog: eng.prog, pkg: src.Pkg, src: src, contract: c, name: shortFuncName(c.Key), safe: c.Safe}
	return fc
}

func (fc *FnCtx) reset(pass int) {
	fc.pass = pass
	fc.cmds = nil
	fc.declared = map[string]bool{}
	fc.nfresh = 0
	fc.obls = nil
	fc.loops = nil
	fc.loopOrd = 0
	fc.callOrd = map[string]int{}
	fc.retOrd = 0
	fc.safeOrd = map[string]int{}
	fc.strLits = map[string]string{}
	fc.tags = map[string]int{}
	fc.abstracted = nil
	fc.unsupported = nil
	fc.trustedUsed = map[string]bool{}
	fc.assumptions = map[string]bool{}
	fc.fieldOwner = map[*types.Var]string{}
	fc.localFuncs = map[types.Object]*ast.FuncLit{}
	fc.escaped = map[types.Object]bool{}
	fc.anchorHit = map[int]bool{}
	fc.inl = nil
	fc.inlineDepth = 0
	fc.qn = 0
	if pass == 1 {
		fc.keyObj = map[heapKey]*types.Var{} // kept for pass 2: keys are materialised at entry before their first use
	}
	fc.owned = nil
	fc.invCallOrd = 0
	fc.assignOrd = map[string]int{}
	fc.wlog, fc.alog, fc.freshOnly = nil, nil, nil
	fc.invKeys = nil
	fc.structValDone = nil
	if pass == 1 {
		fc.keys = map[any]bool{}
		fc.keyOrder = nil
		fc.keySorts = map[any]string{}
		fc.keyTypes = map[any]types.Type{}
	}
}

func (fc *FnCtx) nextQ() int { fc.qn++; return fc.qn }

// VerifyFunc generates the obligations of one function under contract.
func (eng *Engine) VerifyFunc(c *FuncContract) (res *FuncResult) {
	res = &FuncResult{Name: shortFuncName(c.Key), Key: c.Key}
	outerKey, local := c.Key, ""
	if i := strings.Index(c.Key, "$"); i >= 0 {
		outerKey, local = c.Key[:i], c.Key[i+1:]
	}
	src := eng.prog.FuncDecls[outerKey]
	if src == nil || src.Decl.Body == nil {
		res.Unbound = append(res.Unbound, "function "+outerKey+" not found in the loaded packages")
		return res
	}
	fc := eng.newFnCtx(src, c)
	fc.fnBody, fc.fnSig, fc.fnPos = src.Decl.Body, src.Obj.Type().(*types.Signature), src.Decl.Pos()
	if local != "" {
		lit := findLocalLit(src, local)
		if lit == nil {
			res.Unbound = append(res.Unbound, "function literal bound to "+local+" not found in "+outerKey)
			return res
		}
		fc.fnBody, fc.fnSig, fc.fnPos = lit.Body, src.Pkg.TypesInfo.TypeOf(lit).(*types.Signature), lit.Pos()
	}
	defer func() {
		if r := recover(); r != nil {
			switch e := r.(type) {
			case bindErr:
				res.Unbound = append(res.Unbound, fmt.Sprintf("%s: %s", res.Name, string(e)))
				res.Obls = nil
			case engErr:
				res.Err = fmt.Sprintf("%s: %s (near %s)", res.Name, string(e), fc.posStr(fc.curPos))
				res.Obls = nil
			default:
				panic(r)
			}
		}
	}()
	if msg := resolveNamedLoops(c, fc.fnBody, src.Pkg.TypesInfo); msg != "" {
		res.Unbound = append(res.Unbound, res.Name+": "+msg)
		return res
	}
	for pass := 1; pass <= 2; pass++ {
		fc.reset(pass)
		fc.run()
	}
	// anchors that never matched are unbound contracts
	for i, a := range c.Anchored {
		if !fc.anchorHit[i] && !a.Optional {
			res.Unbound = append(res.Unbound, fmt.Sprintf("%s: anchored clause never matched: at %s %s #%d (%s:%d)", res.Name, a.AnchorKind, a.AnchorName, a.AnchorOrd, a.File, a.Line))
		}
	}
	if len(res.Unbound) > 0 {
		// a contract that can no longer be laid over the code decides nothing about it: no obligation of this
		// function is claimed (UNDECIDED), none is reported as a violation
		fc.obls = nil
	}
	for n := range c.Invariants {
		if n > fc.loopOrd {
			res.Unbound = append(res.Unbound, fmt.Sprintf("%s: invariant for loop %d but the function has %d loops", res.Name, n, fc.loopOrd))
		}
	}
	res.Obls = fc.obls
	res.Abstracted = fc.abstracted
	res.Unsupported = fc.unsupported
	for k := range fc.trustedUsed {
		res.Trusted = append(res.Trusted, k)
	}
	sort.Strings(res.Trusted)
	for k := range fc.assumptions {
		res.Assumptions = append(res.Assumptions, k)
	}
	sort.Strings(res.Assumptions)
	res.Cmds = len(fc.cmds)
	return res
}

// findLocalLit finds the function literal assigned to the local variable `name` in a function.
func findLocalLit(src *FuncSrc, name string) *ast.FuncLit {
	var found *ast.FuncLit
	ast.Inspect(src.Decl.Body, func(n ast.Node) bool {
		if found != nil {
			return false
		}
		switch x := n.(type) {
		case *ast.AssignStmt:
			for i, l := range x.Lhs {
				if id, ok := l.(*ast.Ident); ok && id.Name == name && i < len(x.Rhs) {
					if lit, ok := ast.Unparen(x.Rhs[i]).(*ast.FuncLit); ok {
						found = lit
					}
				}
			}
		case *ast.ValueSpec:
			for i, id := range x.Names {
				if id.Name == name && i < len(x.Values) {
					if lit, ok := ast.Unparen(x.Values[i]).(*ast.FuncLit); ok {
						found = lit
					}
				}
			}
		}
		return true
	})
	return found
}

type fakeDecl struct {
	Body *ast.BlockStmt
	pos  token.Pos
}

func (d fakeDecl) Pos() token.Pos { return d.pos }

func (fc *FnCtx) run() {
	decl := fakeDecl{Body: fc.fnBody, pos: fc.fnPos}
	sig := fc.fnSig
	st := &State{live: tTrue, vars: map[any]Term{}}
	fc.entry = st
	if fc.pass == 2 {
		for _, k := range fc.keyOrder {
			fc.get(st, k, fc.keySorts[k], fc.keyTypes[k])
		}
	}
	fc.get(st, allocKey, SInt, nil)
	fc.structValsAllocated(st)
	// axioms of every loaded contract file of this package and of packages whose contracts are used
	fc.paramInit = map[string]Term{}
	bindParam := func(v *types.Var) {
		if v == nil {
			return
		}
		t := fc.fresh(v.Name(), v.Type())
		t.T = v.Type()
		st.vars[v] = t
		fc.allocated(st, t)
		if v.Name() != "" && v.Name() != "_" {
			fc.paramInit[v.Name()] = t
		}
	}
	if sig.Recv() != nil {
		bindParam(sig.Recv())
	}
	for i := 0; i < sig.Params().Len(); i++ {
		bindParam(sig.Params().At(i))
	}
	fc.results = nil
	for i := 0; i < sig.Results().Len(); i++ {
		rv := sig.Results().At(i)
		fc.results = append(fc.results, rv)
		z := fc.zeroValue(rv.Type())
		if z.S == "" {
			z = fc.zeroStruct(st, rv.Type())
		}
		z.T = rv.Type()
		st.vars[rv] = z
	}
	fc.resNames = fc.contract.ResultNames
	if fc.resNames == nil {
		fc.resNames = defaultResultNames(sig)
	}
	fc.emitAxioms(st)
	fc.globalInits(st)
	// entry snapshot for old(): clone after parameters are bound
	entrySnap := st.clone()
	fc.entry = entrySnap
	for _, r := range fc.contract.Requires {
		t := fc.contractExprAt(st, r, decl.Body.Lbrace+1)
		fc.assume(st, t)
	}
	fc.assumePkgInvs(st)
	fc.guardEntry(st)
	fc.entry = st.clone()
	fc.cover(st, "cover-pre", decl.Pos())
	fc.runAnchors(st, "entry", "", 0, decl.Body.Lbrace+1, nil)
	cur := st.clone()
	fc.block(cur, decl.Body.List)
	if !cur.dead() {
		fc.doReturn(cur, nil, decl.Body.Rbrace, "end of function")
	}
	if fc.pass == 1 {
		// discover the heap keys the initialisers of the globals we read will touch
		scratch := &State{live: tTrue, vars: map[any]Term{}}
		fc.globalInits(scratch)
	}
}

func (fc *FnCtx) emitAxioms(st *State) {
	var paths []string
	for p := range fc.prog.Contracts {
		paths = append(paths, p)
	}
	sort.Strings(paths)
	for _, p := range paths {
		pc := fc.prog.Contracts[p]
		if p != fc.contract.PkgPath && !fc.imports(p) {
			continue
		}
		for _, ax := range pc.Axioms {
			ce := &cenv{fc: fc, pkgPath: p, pkg: fc.prog.Pkgs[p], names: map[string]Term{}, st: st}
			t := ce.boolExpr(ax.Expr)
			fc.assumeGlobal(t)
			fc.assumptions[fmt.Sprintf("axiom (%s): %s", p[strings.LastIndex(p, "/")+1:], ax.Src)] = true
		}
	}
}

func (fc *FnCtx) imports(path string) bool {
	seen := map[string]bool{}
	var walk func(p string) bool
	walk = func(p string) bool {
		if p == path {
			return true
		}
		if seen[p] {
			return false
		}
		seen[p] = true
		pk := fc.prog.Pkgs[p]
		if pk == nil || !strings.HasPrefix(p, modRoot) {
			return false
		}
		for ip := range pk.Imports {
			if strings.HasPrefix(ip, modRoot) && walk(ip) {
				return true
			}
		}
		return false
	}
	return walk(fc.pkg.PkgPath)
}

func (fc *FnCtx) cenvAt(st *State, pos token.Pos) *cenv {
	return &cenv{fc: fc, pkgPath: fc.contract.PkgPath, pkg: fc.pkg, names: map[string]Term{}, st: st, old: fc.entry, scopePos: pos, fnObj: fc.src.Obj}
}

// contractExprAt translates a clause of the function under verification in state st.
func (fc *FnCtx) contractExprAt(st *State, c *Clause, pos token.Pos) Term {
	return fc.contractExprAtWith(st, c, pos, nil)
}

func (fc *FnCtx) contractExprAtWith(st *State, c *Clause, pos token.Pos, extra map[string]Term) Term {
	ce := fc.cenvAt(st, pos)
	ce.loopN = c.LoopN
	for k, v := range extra {
		ce.names[k] = v
	}
	if c.Kind == "ensures" || c.AnchorKind == "return" {
		// in `ensures`, parameters denote their entry values (what the caller passed); an `at return` clause
		// is code-level and sees parameters like any other local (current value; old(p) is the entry value)
		if c.Kind == "ensures" {
			for n, t := range fc.paramInit {
				ce.names[n] = t
			}
		}
		for i, rv := range fc.results {
			v := st.vars[rv]
			v.T = rv.Type()
			if i < len(fc.resNames) && fc.resNames[i] != "" {
				ce.names[fc.resNames[i]] = v
			}
		}
		if len(fc.results) > 0 {
			if _, ok := ce.names["result"]; !ok {
				v := st.vars[fc.results[0]]
				v.T = fc.results[0].Type()
				ce.names["result"] = v
			}
		}
		if c.Kind == "ensures" || !pos.IsValid() {
			ce.scopePos = fc.fnBody.Lbrace + 1
		} // an `at return` clause also sees the locals in scope at that return statement
	}
	if c.Kind == "requires" {
		ce.scopePos = fc.fnBody.Lbrace + 1
	}
	return ce.boolExpr(c.Expr)
}


// resolveNamedLoops gives ordinals to clauses written `loop assigning(v) ...`: the loop (numbered in source
// order, outer before inner, as the lowering numbers them) whose own body, not counting nested loops, assigns v.
func resolveNamedLoops(c *FuncContract, body *ast.BlockStmt, info *types.Info) string {
	if c.loopsResolved {
		return ""
	}
	var need []*Clause
	need = append(need, c.NamedLoopClauses...)
	for _, a := range c.Anchored {
		if a.LoopVar != "" {
			need = append(need, a)
		}
	}
	if len(need) == 0 {
		c.loopsResolved = true
		return ""
	}
	assignedBy := map[string][]int{}
	n := 0
	var walk func(node ast.Node, cur int)
	walk = func(node ast.Node, cur int) {
		ast.Inspect(node, func(x ast.Node) bool {
			if x == nil || x == node {
				return true
			}
			switch s := x.(type) {
			case *ast.FuncLit:
				return false
			case *ast.ForStmt:
				n++
				me := n
				if s.Init != nil {
					walk(s.Init, cur)
				}
				if s.Post != nil {
					walk(s.Post, me)
				}
				walk(s.Body, me)
				return false
			case *ast.RangeStmt:
				n++
				walk(s.Body, n)
				return false
			case *ast.AssignStmt:
				for _, l := range s.Lhs {
					if id, ok := ast.Unparen(l).(*ast.Ident); ok && cur > 0 {
						assignedBy[id.Name] = append(assignedBy[id.Name], cur)
					}
				}
			case *ast.IncDecStmt:
				if id, ok := ast.Unparen(s.X).(*ast.Ident); ok && cur > 0 {
					assignedBy[id.Name] = append(assignedBy[id.Name], cur)
				}
			}
			return true
		})
	}
	walk(body, 0)
	for _, cl := range need {
		loops := assignedBy[cl.LoopVar]
		if len(loops) == 0 {
			return "no loop assigns " + cl.LoopVar + " (clause " + cl.Src + ")"
		}
		cl.LoopN = loops[0]
		if cl.AnchorKind == "" {
			c.Invariants[cl.LoopN] = append(c.Invariants[cl.LoopN], cl)
		}
	}
	c.loopsResolved = true
	return ""
}
