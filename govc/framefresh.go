package main

import (
	"fmt"
	"go/ast"
	"go/token"
	"go/types"
)

// Fresh-only writes. A field write x.f = v is "fresh-only" when x denotes storage created by the
// writing function itself: a struct-valued local (its own copy), or a pointer local every
// definition of which is &T{...}, new(T) or T{...}. Such a write can never change an object that
// existed before the function was called. If every reachable writer of a field is fresh-only, a
// call leaves the field unchanged on all pre-existing objects (the verifier then havocs the field
// array but re-asserts it below the allocation mark).

// freshLocals computes, for a function body, the local variables that only ever hold fresh storage.
func freshLocals(info *types.Info, body ast.Node) map[types.Object]bool {
	fresh := map[types.Object]bool{}
	bad := map[types.Object]bool{}
	isFreshExpr := func(e ast.Expr) bool {
		switch x := ast.Unparen(e).(type) {
		case *ast.CompositeLit:
			return true
		case *ast.UnaryExpr:
			if x.Op == token.AND {
				_, ok := ast.Unparen(x.X).(*ast.CompositeLit)
				return ok
			}
		case *ast.CallExpr:
			if id, ok := ast.Unparen(x.Fun).(*ast.Ident); ok && id.Name == "new" {
				if _, isB := info.Uses[id].(*types.Builtin); isB {
					return true
				}
			}
		}
		return false
	}
	note := func(id *ast.Ident, rhs ast.Expr, define bool) {
		var obj types.Object
		if define {
			obj = info.Defs[id]
		}
		if obj == nil {
			obj = info.Uses[id]
		}
		if obj == nil {
			return
		}
		if rhs != nil && isFreshExpr(rhs) {
			if !bad[obj] {
				fresh[obj] = true
			}
			return
		}
		if rhs == nil {
			// var x T (zero value): a struct value is fresh storage; a nil pointer is never written through
			if !bad[obj] {
				fresh[obj] = true
			}
			return
		}
		bad[obj] = true
		delete(fresh, obj)
	}
	ast.Inspect(body, func(n ast.Node) bool {
		switch x := n.(type) {
		case *ast.AssignStmt:
			if len(x.Lhs) == len(x.Rhs) {
				for i, l := range x.Lhs {
					if id, ok := l.(*ast.Ident); ok {
						note(id, x.Rhs[i], x.Tok == token.DEFINE)
					}
				}
			} else {
				for _, l := range x.Lhs {
					if id, ok := l.(*ast.Ident); ok {
						note(id, &ast.BadExpr{}, x.Tok == token.DEFINE)
					}
				}
			}
		case *ast.ValueSpec:
			for i, id := range x.Names {
				if i < len(x.Values) {
					note(id, x.Values[i], true)
				} else if len(x.Values) == 0 {
					note(id, nil, true)
				} else {
					note(id, &ast.BadExpr{}, true)
				}
			}
		case *ast.RangeStmt:
			for _, e := range []ast.Expr{x.Key, x.Value} {
				if id, ok := e.(*ast.Ident); ok {
					note(id, &ast.BadExpr{}, x.Tok == token.DEFINE)
				}
			}
		}
		return true
	})
	return fresh
}

// freshBase: does base (the x in x.f) denote storage created by this function?
func freshBase(info *types.Info, fresh map[types.Object]bool, base ast.Expr) bool {
	for {
		switch x := ast.Unparen(base).(type) {
		case *ast.Ident:
			obj := info.Uses[x]
			if obj == nil {
				obj = info.Defs[x]
			}
			v, ok := obj.(*types.Var)
			if !ok || v.Pkg() == nil || v.Parent() == v.Pkg().Scope() {
				return false // package-level variable
			}
			if _, isPtr := v.Type().Underlying().(*types.Pointer); isPtr {
				return fresh[obj]
			}
			// a struct-valued local or parameter is the function's own copy
			_, isStruct := v.Type().Underlying().(*types.Struct)
			return isStruct
		case *ast.SelectorExpr:
			// x.g.f: fresh if x is fresh and g is a struct-valued (embedded-by-value) field
			if sel, ok := info.Selections[x]; ok && sel.Kind() == types.FieldVal {
				if _, isStruct := sel.Type().Underlying().(*types.Struct); isStruct {
					base = x.X
					continue
				}
			}
			return false
		default:
			return false
		}
	}
}

// markReflect marks every field reachable by value from struct type st as written (fresh or not).
func markReflect(w *wset, st *types.Struct, fresh bool, depth int) {
	if depth > 4 {
		return
	}
	for i := 0; i < st.NumFields(); i++ {
		f := st.Field(i)
		if !f.Exported() && !f.Embedded() {
			continue
		}
		if fresh {
			w.fresh[f.Origin()] = true
		} else {
			w.vars[f.Origin()] = true
		}
		if sub, ok := f.Type().Underlying().(*types.Struct); ok {
			markReflect(w, sub, fresh, depth+1)
		}
		if p, ok := f.Type().Underlying().(*types.Pointer); ok {
			// pointer fields set by decoding point to objects the decoder allocates: their fields are fresh writes
			if sub, ok := p.Elem().Underlying().(*types.Struct); ok {
				markReflect(w, sub, true, depth+1)
			}
		}
	}
}

func (f *Frame) lightAssumption() string {
	return "frame: calls into leaf library packages (strings, fmt, os, time, encoding/*, crypto/*, net/http helpers, database/sql, ...; see leafPkgPrefixes) run module code only through methods of library-declared interfaces on the values they are given; the write sets of those methods are accounted for, except the 'heavy' ones whose closure dispatches dynamically (" + fmt.Sprint(f.heavyList) + "), which leaf library code is assumed never to call"
}

// extResultLocals: locals that only ever hold results of calls to functions outside the module
// (e.g. the cancel function returned by context.WithTimeout): calling such a value runs library code.
func extResultLocals(info *types.Info, body ast.Node) map[types.Object]bool {
	good := map[types.Object]bool{}
	bad := map[types.Object]bool{}
	mark := func(id *ast.Ident, ext bool, define bool) {
		var obj types.Object
		if define {
			obj = info.Defs[id]
		}
		if obj == nil {
			obj = info.Uses[id]
		}
		if obj == nil {
			return
		}
		if ext && !bad[obj] {
			good[obj] = true
			return
		}
		bad[obj] = true
		delete(good, obj)
	}
	isExtCall := func(e ast.Expr) bool {
		ce, ok := ast.Unparen(e).(*ast.CallExpr)
		if !ok {
			return false
		}
		var id *ast.Ident
		switch fx := ast.Unparen(ce.Fun).(type) {
		case *ast.Ident:
			id = fx
		case *ast.SelectorExpr:
			id = fx.Sel
		}
		if id == nil {
			return false
		}
		fn, ok := info.Uses[id].(*types.Func)
		return ok && !inModule(fn.Pkg())
	}
	ast.Inspect(body, func(n ast.Node) bool {
		switch x := n.(type) {
		case *ast.AssignStmt:
			if len(x.Rhs) == 1 {
				ext := isExtCall(x.Rhs[0])
				for _, l := range x.Lhs {
					if id, ok := l.(*ast.Ident); ok && id.Name != "_" {
						mark(id, ext, x.Tok == token.DEFINE)
					}
				}
			} else {
				for i, l := range x.Lhs {
					if id, ok := l.(*ast.Ident); ok && id.Name != "_" {
						mark(id, i < len(x.Rhs) && isExtCall(x.Rhs[i]), x.Tok == token.DEFINE)
					}
				}
			}
		case *ast.ValueSpec:
			for i, id := range x.Names {
				ext := false
				if len(x.Values) == 1 && len(x.Names) > 1 {
					ext = isExtCall(x.Values[0])
				} else if i < len(x.Values) {
					ext = isExtCall(x.Values[i])
				}
				mark(id, ext, true)
			}
		case *ast.RangeStmt:
			for _, e := range []ast.Expr{x.Key, x.Value} {
				if id, ok := e.(*ast.Ident); ok {
					mark(id, false, x.Tok == token.DEFINE)
				}
			}
		}
		return true
	})
	return good
}
