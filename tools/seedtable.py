#!/usr/bin/env python3
"""Regenerates Appendix F of DESIGN.md (which checks catch which seeded changes) from seeded/*/meta.json."""
import json, glob, os, re
rows = []
for d in sorted(glob.glob('/verif/seeded/C*')):
    m = os.path.join(d, 'meta.json')
    if not os.path.exists(m):
        continue
    j = json.load(open(m))
    exp = j.get('expect', 'fail .')
    status = 'missed' if exp == 'missed' else 'caught'
    by = j.get('detected_by', '')
    obl = '' if exp == 'missed' else '`' + exp.replace('fail ', '', 1).replace('\\', '') + '`'
    rows.append((j['property'], os.path.basename(d), status, obl, by))
out = ["| property | seeded change | result | obligation that fails | how |", "|---|---|---|---|---|"]
for r in rows:
    out.append("| %s | %s | %s | %s | %s |" % r)
txt = "\n".join(out)
p = '/verif/DESIGN.md'
s = open(p).read()
a, b = '<!-- seedtable:begin -->', '<!-- seedtable:end -->'
if a in s:
    s = s[:s.index(a) + len(a)] + "\n" + txt + "\n" + s[s.index(b):]
    open(p, 'w').write(s)
print(len(rows), 'rows')
