#!/usr/bin/env python3
"""Debug aid: skolemize the negated universal goal of a dumped obligation and print the witness and chosen terms.
usage: skolem.py file.smt2 [term ...]   ({q} in a term is replaced by the witness constant)"""
import re, sys, subprocess
s = open(sys.argv[1]).read()
i = s.rindex('(assert (and live')
goal = s[i:]
m = re.match(r'\(assert \(and (live!\d+) \(not \(forall \(\((\S+) (\S+)\)\) (.*)\)\)\)\)\s*\(check-sat\)\s*$', goal, re.S)
if not m:
    print("goal is not a single-variable universal"); print(goal[:500]); sys.exit(1)
live, q, sort, body = m.groups()
terms = [q] + [t.replace('{q}', q) for t in sys.argv[2:]]
out = s[:i] + f"(declare-const {q} {sort})\n(assert {live})\n(assert (not {body}))\n(check-sat)\n(get-value ({' '.join(terms)}))\n"
open('/tmp/scr/skolem.smt2', 'w').write(out)
print(body[:2500])
print(subprocess.run(['z3-new', '-T:60', '/tmp/scr/skolem.smt2'], capture_output=True, text=True).stdout[:3000])
