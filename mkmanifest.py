#!/usr/bin/env python3
"""Regenerates MANIFEST.json from the tables below (python3 mkmanifest.py). Not used at check time."""
import json, subprocess

TECH = "contract-based deductive verification: WP/VC generation over the typed Go AST of /repo (govc), contracts in //@ comment files behind build tag verif, obligations discharged by z3 4.8.12 / z3 5.1.0 / cvc5 1.0.3"

# id -> (level category, level text, level_note, design_ref)
CLAIMS = {
 "C17": ("proof",
         "Typestate contracts on database.Begin/Commit/Rollback/Close (a transaction is open exactly when d.Transaction != nil; ghost counters of successful commits/rollbacks) and assertions anchored at every return of scripting.Handler: after a successful Begin no return leaves the transaction open; a 2xx reply implies exactly one successful commit after all operations succeeded; a non-2xx reply implies nothing was committed; a failed operation never commits. The task loop and the error-condition loops carry inductive invariants (transaction open, all operations so far succeeded, nothing committed yet). Every operation function (doSQL/doSelect/doRows/doUpdate/doDelete/doInsert/doDrop/doSymbols and their helpers) is under a contract that a non-nil error comes with a non-2xx status, dberrors.* never maps an error to success, util.ErrorResponse returns the normalised status it was given.",
         "Trusted: database/sql (Tx.Commit/Rollback end the transaction), atomicity of a committed/rolled-back transaction in SQLite/Postgres. Faults of Rollback itself are excluded by an axiom (outside the property's quantifier). That every statement of the task functions runs on the transaction rather than the bare handle is by the Database.Exec/Query wrappers (not separately claimed). Sequential semantics.",
         "§7 C17"),
 "C20": ("proof",
         "The handler dispatch in router.ServeHTTP is a guarded sink: on every path that reaches it the route's authentication requirement is met (for every combination of route flags, lightweight routes included) and every required permission was granted to the identity the permission loop examined (or the session is an administrator), with an inductive invariant over the permission loop. Session.Authenticate is under contract (Authenticated only after a JWT validated, an unexpired cached token, a token that unwrapped or a password that validated; Admin implies Authenticated; locked-out sessions are not authenticated), as are the route builders (Authentication, LightWeight, Permissions store the declared requirements), auth.GetPermission/GetPermissions/findPermission, util.InListInsensitive and util.ErrorResponse. The frame (no intervening call changes the route flags or the session's authentication state) comes from the writer index and typed call graph recomputed on every run.",
         "Trusted: the user store interface (userIOService) as a record store; oauth.ValidateJWT (C22), auth.TokenUnwrap/tokens.Unwrap (C27/C21), auth.ValidatePassword (C25) are used through their contracts or results; TokenCache entries are trusted to be what was inserted (insertion site asserted). Frame assumptions about leaf library code are listed in the evidence. Sequential semantics. The route table itself needs no per-route obligation: the sink assertions hold for every value of the route flags.",
         "§7 C20"),
 "C21": ("proof",
         "Validators: tokens.Unwrap and tokens.Validate return success only for a token that decrypts under the server's current token key (C27 contracts), whose expiry is not before the time of the call, and whose id is not on the revocation list at the time of the call. Revocation list: Blacklist, Delete, Flush, IsBlacklisted and IsIDBlacklisted are under contract over the table's content (revokedAt(epoch, id); the epoch advances at each insert/delete/flush): Blacklist makes the id revoked, Delete makes it not revoked, IsBlacklisted/IsIDBlacklisted answer what the table says (from the cache or from the rows read, inductive invariant over the rows). Coherence, as package invariants re-established at every return of every one of these functions and of router Authenticate: every revocation-cache entry's Active flag equals the table's answer for its id; no locally issued token held in the decrypted-token cache is revoked; every such cached token carries its expiry. Authenticate's cache-hit path is asserted to have re-checked the expiry of a local token and, by the invariant, to accept no revoked one; its cache fill stores exactly the token that just unwrapped under the whole token text. Because the invariants are inductive over the operations, they hold after every sequential history of issue, revoke, un-revoke, flush, purge, sweep and validate. Table obligations: the two caches are filled only by these functions; no function writes the fields the invariants read after an entry is built.",
         "Trusted: the revocation table as a keyed row set (anchored assumptions at the store calls: C30), AES-GCM for 'issued with the current key and not altered' (so the single-byte-mutation sweep of the statement is the AEAD's guarantee, assumed), caches.* contracts (C28). The 'if' direction (every valid token is accepted) is decided only as far as: no check other than these three rejects after decryption and JSON decoding succeed. Remote-authority tokens are outside the claim. Sequential semantics: the interleavings of the quantifier are not explored (tokens.mutex serialises the list operations; a revoke racing a cache fill in Authenticate is outside the model). Configuration-time SetDatabasePath/Close excluded.",
         "§7 C21"),
 "C22": ("proof",
         "oauth.ValidateJWT, parseAndValidateJWT (and its keyfunc closure, verified as a function of its own), selectVerificationKey, keyByID, allKeys, findKeyByID, refreshJWKS and resetJWKSCache are under contract: a nil error implies the JWT library verified the signature with a key the keyfunc returned (published JWKS keys only, ECDSA/RSA only), expiry was required and lies in the future, issuer/audience options were set from the configuration, and the jti was looked up in the revocation list on this call (both on a result-cache hit and on a miss). The JWKS cache carries a package invariant (every cached key is a published key) checked at every writer; the result cache carries an insertion-time invariant backed by table obligations (call-site census, entry immutability).",
         "Trusted: golang-jwt/v5 ParseWithClaims (signature verification with the keyfunc's key, enforcement of parser options), JWK parsing, tokens.IsIDBlacklisted (revocation list, C21), caches.Find/Add as a map for OAuthJWTCache (C28). Fail-open when the revocation lookup itself errors is outside the property's quantifier and is visible in the contract (lookupFailed). Sequential semantics.",
         "§7 C22"),
 "C23": ("proof",
         "consumeCode and consumeRefreshToken are verified under interference: between their cache lookup and their cache delete (two critical sections of the cache lock) the cache is given arbitrary new contents, standing for any number of other requests running any cache operation; under that, they may report success only when their own caches.Delete, of the very key they looked up (the code / token presented, in the right cache), returned true. caches.Delete removes the entry and reports whether it was there in one critical section (C28 contract and lock discipline), so of N requests presenting the same code or refresh token at most one succeeds, for every N and every interleaving of lookups and deletes. verifyPKCE returns nil exactly when the code carries no challenge, or its method is S256 and BASE64URL(SHA256(verifier)) equals the challenge (two-way postcondition; the hash is asserted to be taken of the verifier presented). The token endpoint is a guarded sink: access, ID and refresh tokens are minted for a code only after consumeCode succeeded on the code presented and verifyPKCE returned nil for that code's challenge and the verifier presented, with the client and redirect URI the code was issued to, and a public client's code must carry a challenge; for a refresh token only after consumeRefreshToken succeeded on the token presented, for the same client. Table obligations: codes and refresh tokens are added to their caches only where they are generated, looked up only by the consume operations, and tokens are minted only by the three grant handlers.",
         "The interference model covers the cache state only (other shared state of the handlers is per request). That a public client without a challenge is refused is part of the sink assertion. Trusted: crypto/sha256, encoding/base64, crypto/rand (fresh keys), caches.Delete's atomicity (C28). Expiry of codes (cache lifetime, C28) is not part of this statement.",
         "§7 C23"),
 "C24": ("proof",
         "The limiter's operations are under functional contracts over the map account -> (failures, lockedUntil), the account being the lower-cased user name auth.ValidatePassword looks up: CheckRateLimit refuses exactly while the account's lock is running and never when the limit is 0, and changes nothing; RecordFailure adds one to the account's count, locks it for the configured period when the count reaches the limit (never before, never shortening a running lock) and does nothing when the limit is 0; RecordSuccess removes the account's record; pruneLoginAttempts never drops a running lock (inductive invariant over the map range). Each carries the frame 'every other account's record is untouched' under the package invariant that records are not shared between accounts. Both login paths (router Authenticate, the OAuth authorize form) check a password only after the limiter allowed that same account, and report every checked attempt to the limiter for the same account (anchored assertions, ghost attempt state). Table obligations: every writer of the map and of the record fields, and every call site of auth.ValidatePassword, is one of the functions under contract.",
         "The property over histories follows from these per-operation transitions by induction on the history (argument in DESIGN.md; the induction itself is not machine-checked). Sequential semantics: the mutex is trusted to serialise the operations, so the concurrent histories of the quantifier are not covered. Trusted: time.Now is monotone; the configured limit and lockout period are the values read at the operation; float seconds to int keeps the sign; strings.ToLower is idempotent.",
         "§7 C24"),
 "C25": ("proof",
         "auth.ValidatePassword carries the property statement as a two-way postcondition (result <==> user exists case-insensitively && stored credential matches in its format && logon or root permission), findPermission and HashPassword have their own contracts, and the migration write is an anchored assertion (what is written is a bcrypt hash of the password just accepted, for the same user). All obligations discharge for all inputs.",
         "Trusted: bcrypt compare/generate agree (bcryptOK); the user store behind the userIOService interface returns the stored record (C30/C31); settings.GetBool is a function of the setting name during one call; strings.EqualFold/HashString are functions. Hash collisions are outside the model.",
         "§7 C25"),
 "C27": ("proof",
         "Every function on the decryption path of internal/util and internal/cli/settings carries a postcondition 'nil error ==> the AES-GCM tag of the input verified under the key derived from the passphrase' and safe-mode obligations on every slice; callers are checked against callee contracts. All obligations are discharged for all inputs (no bound).",
         "Trusted: AES-GCM authenticity (cipher.AEAD.Open contract), KDFs are functions, base64 decoding is a function; frame rules of DESIGN §3.5; sequential semantics. The round-trip direction (decrypt(encrypt(x)) == x) rests on the trusted AEAD contract and is not machine-checked.",
         "§7 C27, Appendix A"),
 "C28": ("proof",
         "Every cache operation (Add, Find, Delete, purge/Purge/PurgeLocal/PurgeAll, SetExpiration, sweepExpired, newCache, Size, Active, notifyEvictions) is under a functional contract over the abstract state cache id -> (key -> (data, expires), lifetime, limit) read off the real cacheList, frames included (every other key and every other cache untouched). Add: the entry under the key afterwards is the value just stored or absent, never an older one; it is absent only when the cache is full; it lives a full lifetime from now. Find: a hit exactly when the entry is present, returns the data stored, renews it, changes nothing else. Delete: the entry is gone, reports whether it was there, and hands notifyEvictions exactly that entry with its old value, after the lock is released. sweepExpired (inductive invariants over the map range): removes only expired entries, every entry expired before the sweep is gone, the batch reported is exactly the set removed with the old values. notifyEvictions: the listener is called exactly once per entry of the batch. purge: the cache is gone and every cache's effective lifetime is unchanged (the clause from the statement); SetExpiration sets it. Representation invariants checked at every writer: entries within the limit, entry maps never shared between caches, the configured lifetime in force. Lock discipline (ghost lock state): the cache table is read only with cacheLock held and written only with the write lock, every operation is one critical section and returns with the lock released. Table obligations: every writer of the table, the records and the lifetimes is one of these functions.",
         "The statement quantifies over concurrent histories: what is machine-checked is the sequential contract of each operation plus the lock discipline (single critical section per operation under one lock); the step from there to linearisability is the standard lock argument, stated, not checked, and interleavings are not explored. `active` and the eviction listener are read once outside the lock (a toggle or registration in between is not covered). Trusted: sync.RWMutex, Go's map range visits each key once, monotone clock. Latent: SetExpiration with caching switched off would store into a nil table (Active is never called outside tests) — noted, outside this statement.",
         "§7 C28"),
 "C29": ("proof",
         "Per-node contracts that carry the statement for a cluster of any size. caches.purge/Purge/PurgeLocal: a purge discards the cache; a purge that originates on the node fires the broadcast hook exactly once (whether or not the cache existed locally) with the id of the cache purged; a purge applied on behalf of a peer (PurgeLocal) never fires it. cluster.ListActiveMembers is the filter of the member list (inductive invariant: every member returned is active and is not this node, and the number returned equals the number of active peers seen, each one appended being the member under the cursor). cluster.BroadcastCacheFlush calls SendCacheFlush exactly once per peer found, with that peer, the cache id it was given and the origin hop count (loop invariant: calls == peers visited; no early exit). cluster.SendCacheFlush issues at most one request, to the URL built from the peer's scheme/host/port, naming the cache and hop count it was given. cluster.FlushCacheHandler, on every path, fires no hook, calls no SendCacheFlush and issues no request, and on the accepted path the cache named in the request is gone when it returns.",
         "From the per-node contracts: one Purge on one node causes exactly one hook firing, hence one SendCacheFlush and at most one request per active peer (bounded by the number of peers), and a receiving node sends nothing (zero secondary messages), for any number of nodes and any sequence of purges — by induction over the sequence; that composition is an argument in DESIGN.md, not a machine-checked lemma. Message delays and drops are outside the contracts (a dropped request is a peer not reached; the statement's 'at least once' is decided as 'asked exactly once'). The spawned `go OnPurge(id)` is counted at the go statement; its body is BroadcastCacheFlush by cluster.Initialize's assignment (trusted). Trusted: database/sql for the member list, net/http. Sequential semantics.",
         "§7 C29"),
 "C39": ("proof",
         "assets.AssetsHandler, Loader, readAssetRange, readAssetFile and normalizeAssetPath are under contract in safe mode: every index into the split Range header, every slice and the read buffer's make are in bounds / non-negative for every Range header and every file size (no bound on either); readAssetRange returns exactly min(end, size-1)-start+1 bytes and refuses a start at or beyond the end of the file; Loader reports the real total size on every path (cache hit included); at the point the 206 reply's Content-Range is built, its triple is (start, start+len(body)-1, total) and the last byte lies inside the file. Every file-system call of the package (os.Stat, os.Open, os.ReadFile; a table obligation lists every use of os/ioutil/filepath in the package) receives a path for which normalizeAssetPath established that it starts with the asset root plus a separator, or is the fixed refusal name. The asset cache is under contract with a package invariant (every entry holds the bytes produced for the asset its key names) and normalizeCachePath maps a request path to a key that names the same asset (the path itself, with a leading slash supplied), so a hit returns the named asset's bytes and nothing else.",
         "One recorded finding (known_findings.txt): a byte range of a Markdown asset is rendered after the cut, so body and Content-Range disagree. Not covered: symbolic links inside the asset root (confinement is lexical, as in the code), files changing on disk between Stat and read, the content of minification and Markdown rendering themselves (C33/C34), multi-range requests (refused by the handler as malformed; proved not to crash). Trusted: ReadAt fills the buffer inside the file, filepath.Clean/Join as functions, strings.Split yields at least one piece.",
         "§7 C39"),
 "C43": ("proof",
         "Every SQL statement the row endpoints issue (db.Exec/db.Query in ReadRows/readRowData, InsertRows/insertRowSet, UpdateRows/updateRowSet, DeleteRows and the abstract-row variants) is a guarded sink: on every path reaching it the caller is an administrator, or the DSN is unrestricted, or tables.Authorized returned true for this user, this dsn.table and the permission of this operation (read/update/delete) on this call, and the database handle belongs to the DSN the request names (also when it comes from a pending transaction id: GetDatabase ensures result.DSN == dsnName). tables.Authorized is under a functional contract: it answers true only if the permissions store returned exactly one grant row selected by filters binding dsn, table and user, and that row grants every requested operation (inductive invariant over the operation loop). database.Open is under contract for the DSN-level gate (a restricted DSN opens only for a caller whose identity or DSN grant authorizes the action); TableCreate/DeleteTable ask for the admin action.",
         "Trusted: the resources handle (Read with Equals filters returns the rows matching the filters), dsns.DSNService.AuthDSN/ReadDSN as the DSN grant store, parsing.FullName, the SQL text builders (C14/C16 not claimed: the statement touches the table named in the URL). Sequential semantics; the permission row read is a snapshot (a concurrent revoke is outside the model).",
         "§7 C43"),
}

NA = {
 "C01": "oracle is the Go compiler over all programs; needs formal semantics of Go and of Ego bytecode plus a compiler-correctness proof; no per-function contract states it",
 "C02": "2-safety over all programs x settings (optimizer/slots/folding/cache simulation proofs); no per-function contract decides it",
 "C04": "relational over all strict-accepted programs across four coercion code paths",
 "C05": "parser/printer round trip and behavioural equivalence over a grammar with two independent parsers",
 "C06": "literal denotation is delegated to text/scanner/strconv; oracle is the Go literal grammar",
 "C08": "quantifies over schedules; the verifier is sequential and Go has no ownership/permission verifier here",
 "C10": "compile scheme x VM try/defer discipline over all programs",
 "C11": "oracle is the Go standard library over all arguments; wrappers are reflection-driven",
 "C12": "relational over all programs (diagnostic run vs plain run)",
 "C13": "token-stream splitting x VM state across @test blocks, over all test files",
 "C14": "injection freedom is a property of the generated SQL language; fragments are concatenated unescaped, no compositional contract is sound",
 "C16": "parser/printer inversion over the SQL grammar, SQLite as execution oracle",
 "C18": "round trip through JSON, type-switch coercions on strings/times/floats, and a third-party SQL driver",
 "C30": "reflection-generated SQL whose meaning is the database's",
 "C31": "agreement of two implementations across file and database persistence",
 "C33": "behavioural equivalence of JavaScript programs",
 "C35": "agreement of two independently written string parsers composed with a sort",
 "C41": "agreement of two execution modes across a process boundary",
 "C42": "schedules x shared symbol tables",
}

NOT_YET = "contracts for this property are planned in DESIGN.md §7 but are not built yet; not claimed until its check passes with zero undischarged obligations"

def main():
    props = [json.loads(l) for l in open("/verif/properties.jsonl")]
    hooks = subprocess.run(["git", "-C", "/repo", "log", "--format=%H %s"], capture_output=True, text=True).stdout.splitlines()
    hook_commits = [l.split()[0] for l in hooks if " verif hooks:" in " " + l]
    checks, na = [], []
    for p in props:
        pid = p["id"]
        if pid in CLAIMS:
            cat, text, note, ref = CLAIMS[pid]
            checks.append({
                "property_id": pid,
                "quick_cmd": f"./check {pid} --tier quick",
                "thorough_cmd": f"./check {pid} --tier thorough",
                "evidence_file": f"/verif/evidence/{pid}.json",
                "replay_cmd_template": "./check --replay {path}",
                "engine": "govc",
                "level_claimed": {"category": cat, "text": text, "design_ref": "DESIGN.md " + ref},
                "level_note": note,
                "technique": TECH,
            })
        else:
            na.append({"property_id": pid, "reason": NA.get(pid, NOT_YET)})
    m = {
        "version": 1,
        "setup_cmd": "cd /verif && ./check --build",
        "hooks": {
            "guard": "verif (Go build tag)",
            "enable": "go build/test -tags verif; the only guarded files are comment-only zz_verif_contracts.go contract files, read by govc as syntax",
            "baseline_off_cmd": "cd /repo && PATH=/opt/veriftools/go1.26.8/bin:$PATH GOFLAGS=-mod=mod GOPROXY=off GOSUMDB=off GOTOOLCHAIN=local go test -vet=off -count=1 ./internal/util/javascript/ ./tools/langlint/",
            "source_commits": hook_commits,
            "add_only": True,
        },
        "engines": [{"name": "govc", "path": "/verif/govc", "serves_properties": sorted(CLAIMS), "kind_free_text": TECH}],
        "checks": checks,
        "not_applicable": na,
        "notes": "See DESIGN.md. known_findings.txt lists fixed defects and recorded findings; selftest/ holds the must-fail corpus.",
    }
    json.dump(m, open("/verif/MANIFEST.json", "w"), indent=1)
    print(len(checks), "claimed,", len(na), "not applicable")

main()
