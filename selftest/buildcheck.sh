#!/bin/bash
# build-check mutants: each must compile
export PATH=/opt/veriftools/go1.26.8/bin:$PATH GOFLAGS=-mod=mod GOPROXY=off GOSUMDB=off GOTOOLCHAIN=local
work=$(mktemp -d /tmp/bm-XXXXXX)
rsync -a --exclude .git /repo/ $work/repo/
(cd $work/repo/internal/i18n && go run ../../tools/lang/ -c -p languages -s $work/messages.go >/dev/null 2>&1)
echo "{\"Replace\":{\"$work/repo/internal/i18n/messages.go\":\"$work/messages.go\"}}" > $work/ov.json
for d in "$@"; do
  n=$(basename $d)
  (cd $work/repo && patch -p1 -s < $d/patch.diff) || { echo "$n: PATCH FAILS"; continue; }
  pk=$(grep '^+++ ' $d/patch.diff | sed 's|+++ b/||; s|\t.*||' | xargs -n1 dirname | sort -u | sed 's|^|./|' | tr '\n' ' ')
  out=$(cd $work/repo && go build -overlay $work/ov.json $pk 2>&1 | head -3)
  if [ -n "$out" ]; then echo "$n: DOES NOT BUILD: $out"; else echo "$n: builds"; fi
  (cd $work/repo && patch -p1 -s -R < $d/patch.diff)
done
rm -rf $work
