#!/bin/bash
# usage: mkmutant.sh <dir-under-selftest> <property> "<expect line>" <file> <python-expr-transforming-s>
# creates selftest/<dir>/patch.diff + expect by applying a text transformation to one file of /repo
set -e
DIR=$(cd "$(dirname "$0")/.." && pwd)
dest="$DIR/selftest/$1"; prop=$2; expect=$3; file=$4; expr=$5
work=$(mktemp -d /tmp/mkmut-XXXXXX)
mkdir -p "$work/a/$(dirname "$file")" "$work/b/$(dirname "$file")"
cp "/repo/$file" "$work/a/$file"
python3 - "$work/a/$file" "$work/b/$file" "$expr" <<'PY'
import sys
s=open(sys.argv[1]).read()
t=eval(sys.argv[3])
assert t!=s, "transformation changed nothing"
open(sys.argv[2],'w').write(t)
PY
mkdir -p "$dest"
(cd "$work" && diff -u "a/$file" "b/$file" > "$dest/patch.diff") || true
printf '%s\n%s\n' "$prop" "$expect" > "$dest/expect"
rm -rf "$work"
echo "created $dest"
