#!/bin/bash
# Must-fail / harmless corpus. Each case is a directory with patch.diff and expect:
#   expect line 1: property id ; line 2: "fail <regex over the VIOLATION obligation names>"  or  "pass"
# The patch is applied to a scratch copy of /repo (outside /repo and /verif), the property's check is run against
# the copy, and the copy is removed. Exit 0 iff every case behaves as expected.
DIR=$(cd "$(dirname "$0")/.." && pwd)
BIN="$DIR/bin/govc"
JOBS=${SELFTEST_JOBS:-4}
cases=()
if [ $# -gt 0 ]; then
  for id in "$@"; do for d in "$DIR"/selftest/mutants/$id* "$DIR"/selftest/harmless/$id* "$DIR"/seeded/$id*; do [ -f "$d/patch.diff" ] && cases+=("$d"); done; done
else
  for d in "$DIR"/selftest/mutants/* "$DIR"/selftest/harmless/* "$DIR"/seeded/*; do [ -f "$d/patch.diff" ] && cases+=("$d"); done
fi
run_case() {
  d=$1
  name=$(basename "$d")
  if [ -f "$d/expect" ]; then prop=$(sed -n 1p "$d/expect"); exp=$(sed -n 2p "$d/expect"); else prop=$(jq -r '.check // .property' "$d/meta.json"); exp=$(jq -r '.expect // "fail ."' "$d/meta.json"); fi
  work=$(mktemp -d /tmp/govc-selftest-XXXXXX)
  rsync -a --exclude .git /repo/ "$work/repo/"
  if ! (cd "$work/repo" && patch -p1 -s < "$d/patch.diff" >/dev/null 2>&1); then echo "SELFTEST $name: patch does not apply: BROKEN"; rm -rf "$work"; return 1; fi
  mkdir -p "$work/out"
  out=$("$BIN" check "$prop" --repo "$work/repo" --out "$DIR" --evidence-dir "$work/out" 2>&1); code=$?
  rm -rf "$work"
  viol=$(echo "$out" | grep '^VIOLATION' )
  case "$exp" in
    missed)
      if [ -n "$viol" ]; then echo "SELFTEST $name: NOW CAUGHT (update meta.json expect): $(echo "$viol" | head -1 | sed 's/.*obligation=//')"; else echo "SELFTEST $name: known miss (recorded in meta.json; no check claims to catch it yet)"; fi
      return 0 ;;
    pass)
      if [ -z "$viol" ] && [ $code -ne 2 ]; then echo "SELFTEST $name: ok (no violation, exit $code)"; return 0; fi
      echo "SELFTEST $name: UNEXPECTED ALARM (exit $code)"; echo "$out" | tail -5; return 1 ;;
    fail*)
      re=${exp#fail }
      if [ $code -eq 1 ] && echo "$viol" | grep -Eq -- "$re"; then echo "SELFTEST $name: ok (caught: $(echo "$viol" | grep -E -- "$re" | head -1 | sed 's/.*obligation=//'))"; return 0; fi
      echo "SELFTEST $name: MISSED (exit $code; expected a violation matching '$re')"; echo "$out" | tail -4; return 1 ;;
  esac
  echo "SELFTEST $name: bad expect"; return 1
}
export -f run_case; export DIR BIN
fail=0
printf '%s\n' "${cases[@]}" | xargs -P "$JOBS" -I{} bash -c 'run_case "{}"' || fail=1
[ $fail -eq 0 ] && echo "SELFTEST: all ${#cases[@]} cases behaved as expected" || echo "SELFTEST: FAILURES"
exit $fail
